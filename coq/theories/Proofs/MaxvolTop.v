(* py_rect_maxvol as a whole: the start taken from py_maxvol establishes the loop invariant of Proofs/MaxvolRectP.v;
   post-condition of the routine for tall inputs. *)
From TN Require Export Proofs.MaxvolP Proofs.MaxvolRectP.
From Coq Require Import ZArith Lia.

Lemma nth_repeat_lt {X} (x d : X) : forall m t, (t < m)%nat -> nth t (repeat x m) d = x.
Proof. induction m as [|m IH]; intros t H; [lia|]. destruct t; cbn; [reflexivity|]. apply IH. lia. Qed.

Lemma chosen0_length tmp : forall ch : list bool, length (fold_left (fun ch t => upd t ch false) tmp ch) = length ch.
Proof. induction tmp as [|x tl IH]; intros ch; cbn [fold_left]; [reflexivity|]. rewrite IH. apply upd_length. Qed.

Lemma chosen0_spec tmp : forall (ch : list bool) t, (forall x, In x tmp -> (x < length ch)%nat) ->
  (nth t (fold_left (fun ch t => upd t ch false) tmp ch) false = true <-> (nth t ch false = true /\ ~ In t tmp)).
Proof.
  induction tmp as [|x tl IH]; intros ch t Hb; cbn [fold_left].
  - split; [intros H; split; [exact H|intros []]|intros [H _]; exact H].
  - rewrite IH. 2:{ intros y Hy. rewrite upd_length. apply Hb. right. exact Hy. }
    rewrite nth_upd. assert (Hx : (x <? length ch)%nat = true) by (apply Nat.ltb_lt, Hb; left; reflexivity).
    rewrite Hx, andb_true_r. destruct (Nat.eqb_spec t x) as [->|Hne].
    + split; [intros [H1 _]; discriminate|intros [_ H2]; exfalso; apply H2; left; reflexivity].
    + split; intros [H1 H2]; (split; [exact H1|]).
      * intros [E|E]; [congruence|auto].
      * intros E. apply H2. right. exact E.
Qed.

Lemma clamp_topk_id N r topk : (r <= topk <= N)%nat -> clamp_topk (Z.of_nat topk) N r = topk.
Proof.
  intros H. unfold clamp_topk.
  assert (E1 : (Z.of_nat topk =? -1)%Z = false) by (apply Z.eqb_neq; lia).
  assert (E2 : (Z.of_nat N <? Z.of_nat topk)%Z = false) by (apply Z.ltb_ge; lia).
  rewrite E1, E2. cbn [orb]. rewrite Nat2Z.id. destruct (Nat.ltb_spec topk r); lia.
Qed.

Lemma clamp_topk_range t N r : (r <= N)%nat -> (r <= clamp_topk t N r <= N)%nat.
Proof.
  intros H. unfold clamp_topk. destruct ((t =? -1)%Z || (Z.of_nat N <? t)%Z) eqn:E.
  - destruct (Nat.ltb_spec N r); lia.
  - apply orb_false_iff in E. destruct E as [_ E]. apply Z.ltb_ge in E. destruct (Nat.ltb_spec (Z.to_nat t) r); lia.
Qed.

Section Top.
Variable K : Ops.
Hypothesis Kth : laws K.
Add Ring KringT : Kth.
Variable inv absv : K -> K.
Variable leb : K -> K -> bool.
Variable c105 : K.
Hypothesis leb_total : forall x y, leb x y = false -> leb y x = true.
Hypothesis leb_trans : forall x y z, leb x y = true -> leb y z = true -> leb x z = true.
Hypothesis one_neq_zero : r1 K <> r0 K.
Local Open Scope K_scope.
Variable A : nat -> nat -> K.

Lemma index0_nth N r tmp p : length tmp = r -> (r <= N)%nat -> (p < r)%nat ->
  nth p (firstn N (tmp ++ repeat O N)) O = nth p tmp O.
Proof. intros Hl Hr Hp. rewrite nth_firstn_lt by lia. apply app_nth1. lia. Qed.

(* the state built from py_maxvol's answer satisfies the loop invariant *)
Theorem rect_init_inv N r topk tmp (C : mat K) : (r <= N)%nat -> length tmp = r -> NoDup tmp ->
  (forall p, (p < r)%nat -> (nth p tmp O < topk)%nat) ->
  (forall t c, (t < N)%nat -> sumn r (fun p => mget C t p * A (nth p tmp O) c) = A t c) ->
  rinv K leb A topk N (rect_init K leb N r topk tmp C).
Proof.
  intros Hr Hl Hnd Hb Hrep. unfold rinv, rect_init. cbn [rs_index rs_chosen rs_C rs_rns rs_i rs_K].
  assert (Hin : forall x, In x tmp -> (x < length (repeat true topk))%nat).
  { intros x Hx. rewrite repeat_length. apply (In_nth _ _ O) in Hx. destruct Hx as (p & Hp & <-). apply Hb. lia. }
  split; [|split; [|split; [|split; [|split; [|split]]]]].
  - intros t c Ht. rewrite <- (Hrep t c Ht). apply sumn_ext. intros p Hp.
    rewrite (index0_nth N r tmp p Hl Hr Hp). reflexivity.
  - intros t Ht. cbn [rs_rns rs_chosen rs_C rs_K]. rewrite nth_map_seq0 by exact Ht. reflexivity.
  - split; cbn [rs_chosen rs_index rs_K].
    + rewrite chosen0_length. apply repeat_length.
    + intros t Ht. rewrite (chosen0_spec tmp _ t Hin). rewrite nth_repeat_lt by exact Ht. split.
      * intros [_ Hni] p Hp E. apply Hni. rewrite <- E, (index0_nth N r tmp p Hl Hr Hp). apply nth_In. lia.
      * intros H. split; [reflexivity|]. intros Hx. apply (In_nth _ _ O) in Hx. destruct Hx as (p & Hp & E).
        apply (H p ltac:(lia)). rewrite (index0_nth N r tmp p Hl Hr ltac:(lia)). exact E.
  - intros p q Hp Hq. rewrite !(index0_nth N r tmp) by assumption.
    apply (proj1 (NoDup_nth tmp O) Hnd); lia.
  - rewrite firstn_length, app_length, repeat_length. lia.
  - reflexivity.
  - intros p Hp. rewrite (index0_nth N r tmp p Hl Hr Hp). apply Hb. exact Hp.
Qed.

(* ---------------------------------------------------------------- py_rect_maxvol, tall case *)
Theorem rect_maxvol_post N r tol maxK madd minK si ident topk_arg ipiv C0 :
  (0 < r < N)%nat ->
  let topk := clamp_topk topk_arg N r in
  Forall (fun p => (p < topk)%nat) (firstn r ipiv) ->
  let idx0 := pivots (seq 0 N) 0 (firstn r ipiv) in
  sq_repro K A C0 idx0 N r -> sq_ident K C0 idx0 N r ->                       (* contract of the LAPACK oracle *)
  (forall x, gtb K leb (absv x) (sq_tol K leb c105) = true -> x * inv x = 1) ->  (* field/order contract *)
  (forall n (f : nat -> K), let x := sumn n (fun p => f p * f p) in inv (1 + x) * (1 + x) = 1) ->
  (forall n (f : nat -> K), gtb K leb (sumn n (fun p => f p * f p)) (- (1)) = true) ->
  leb 0 (tol * tol) = true ->
  let mK := fst (rect_params N r maxK madd minK) in let mn := snd (rect_params N r maxK madd minK) in
  (mn <= topk)%nat ->     (* otherwise the code is forced to re-select a chosen row (only possible with top_k_index < minK) *)
  let res := py_rect_maxvol K inv absv leb c105 N r tol maxK madd minK si ident topk_arg ipiv C0 in
  let idx := fst res in let C := snd res in let Kc := length idx in
  (r <= Kc <= mK)%nat /\ (mn <= Kc)%nat /\ NoDup idx /\ (forall p, (p < Kc)%nat -> (nth p idx O < topk)%nat) /\
  (forall t c, (t < N)%nat -> sumn Kc (fun p => mget C t p * A (nth p idx O) c) = A t c) /\
  (ident = true -> forall p q, (p < Kc)%nat -> (q < Kc)%nat -> mget C (nth p idx O) q = delta p q) /\
  ((Kc < mK)%nat -> forall t, (t < topk)%nat -> (forall p, (p < Kc)%nat -> nth p idx O <> t) ->
     leb (dotrow K C t t Kc) (tol * tol) = true).
Proof.
  intros Hrn topk Hf idx0 Hrep Hid Hbig Hinv Hsq Htol mK mn Hmn res idx C Kc.
  pose proof (clamp_topk_range topk_arg N r ltac:(lia)) as Htk. fold topk in Htk.
  pose proof (rect_params_bounds N r ltac:(lia) maxK madd minK) as Hpb.
  destruct (rect_params N r maxK madd minK) as [mK' mn'] eqn:Epar. cbn [fst snd] in mK, mn. subst mK mn.
  destruct Hpb as (HmK & Hmn' & Hrmn).
  (* the start *)
  assert (HfN : Forall (fun p => (p < N)%nat) (firstn r ipiv)).
  { eapply Forall_impl; [|exact Hf]. cbv beta. intros; lia. }
  pose proof (maxvol_post K Kth inv absv leb leb_total leb_trans one_neq_zero A N r c105 si (Z.of_nat topk) ipiv C0
                Hrn HfN Hrep Hid Hbig) as Hsq_post.
  assert (Hf' : Forall (fun p => (p < clamp_topk (Z.of_nat topk) N r)%nat) (firstn r ipiv)).
  { rewrite clamp_topk_id by lia. exact Hf. }
  pose proof (maxvol_below K inv absv leb N r c105 si (Z.of_nat topk) ipiv C0 Hrn Hf') as Hbelow.
  cbv zeta in Hsq_post, Hbelow. rewrite clamp_topk_id in Hbelow by lia.
  set (rs := maxvol_run K inv absv leb N r c105 si (Z.of_nat topk) ipiv C0) in *.
  set (tmp := firstn r (fst (fst rs))) in *. set (Cs := transpose K N r (snd (fst rs))) in *.
  destruct Hsq_post as (Epy & Hlen & Hnd & _ & Hrep1 & _ & _).
  pose proof (rect_init_inv N r topk tmp Cs ltac:(lia) Hlen Hnd Hbelow Hrep1) as Hinit.
  assert (HCs : length (rs_C K (rect_init K leb N r topk tmp Cs)) = N).
  { unfold rect_init. cbn [rs_C]. unfold Cs, transpose. apply mtab_length. }
  assert (HK0 : rs_K K (rect_init K leb N r topk tmp Cs) = r) by reflexivity.
  pose proof (rect_loop_final K Kth inv leb leb_total leb_trans A N topk mK' mn' (tol * tol) ltac:(lia) ltac:(lia)
                Hmn' ltac:(lia) Hmn Hinv Hsq Htol _ Hinit HCs ltac:(rewrite HK0; lia)) as Hfin.
  pose proof (rect_loop_inv K Kth inv leb leb_total leb_trans A N topk mK' mn' (tol * tol) ltac:(lia) ltac:(lia)
                Hmn' ltac:(lia) Hmn Hinv Hsq Htol N _ Hinit) as Hrinv.
  pose proof (rect_loop_C_length K inv leb N topk mK' mn' (tol * tol) N _ HCs) as HClen.
  cbv zeta in Hfin. rewrite HK0 in Hfin.
  set (s := rect_loop K inv leb N N topk mK' mn' (tol * tol) (rect_init K leb N r topk tmp Cs)) in *.
  destruct Hfin as (Hr1 & Hr2 & Hinj & Hlt & HKb & Hcond & Hnorm).
  destruct Hrinv as (_ & _ & Hmask & _ & HlenI & _ & _).
  assert (Eres : res = (firstn (rs_K K s) (rs_index K s),
                        if ident then set_identity K (rs_C K s) (rs_index K s) (rs_K K s) else rs_C K s)).
  { unfold res, py_rect_maxvol. destruct (Nat.leb_spec N r); [lia|]. rewrite Epar. fold topk. rewrite Epy. reflexivity. }
  assert (HKN : (rs_K K s <= N)%nat) by lia.
  assert (EKc : Kc = rs_K K s).
  { unfold Kc, idx. rewrite Eres. cbn [fst]. apply firstn_length_le. lia. }
  assert (Hn : forall p, (p < rs_K K s)%nat -> nth p idx O = nth p (rs_index K s) O).
  { intros p Hp. unfold idx. rewrite Eres. cbn [fst]. apply nth_firstn_lt. exact Hp. }
  assert (HidxC : forall p, (p < rs_K K s)%nat -> (nth p (rs_index K s) O < length (rs_C K s))%nat).
  { intros p Hp. rewrite HClen. specialize (Hlt p Hp). lia. }
  pose proof (set_identity_rows K (rs_index K s) (rs_K K s) (rs_C K s) Hinj HidxC) as [Hrows Hrest].
  rewrite EKc.
  split; [|split; [|split; [|split; [|split; [|split]]]]].
  - lia.
  - unfold rect_cond in Hcond. apply orb_false_iff in Hcond. destruct Hcond as [_ Hc]. apply Nat.ltb_ge in Hc. exact Hc.
  - unfold idx. rewrite Eres. cbn [fst]. apply distinct_NoDup; [lia|]. exact Hinj.
  - intros p Hp. rewrite Hn by exact Hp. apply Hlt. exact Hp.
  - intros t c Ht. unfold C. rewrite Eres. cbn [snd].
    rewrite (sumn_ext (rs_K K s) _ (fun p => mget (if ident then set_identity K (rs_C K s) (rs_index K s) (rs_K K s) else rs_C K s) t p
                                           * A (nth p (rs_index K s) O) c)).
    2:{ intros p Hp. rewrite Hn by exact Hp. reflexivity. }
    destruct ident; [apply Hr2|apply Hr1]; exact Ht.
  - intros Hi p q Hp Hq. unfold C. rewrite Eres, Hi. cbn [snd]. rewrite Hn by exact Hp. apply Hrows; assumption.
  - intros HltK t Ht Hni.
    assert (Hch : nth t (rs_chosen K s) false = true).
    { apply (proj2 Hmask t Ht). intros p Hp. rewrite <- Hn by exact Hp. apply Hni. exact Hp. }
    assert (Hrow : nth t C [] = nth t (rs_C K s) []).
    { unfold C. rewrite Eres. cbn [snd]. destruct ident; [|reflexivity]. apply Hrest.
      intros p Hp. rewrite <- Hn by exact Hp. apply Hni. exact Hp. }
    unfold dotrow, mget. rewrite Hrow. apply (Hnorm HltK t Ht Hch).
Qed.

End Top.
