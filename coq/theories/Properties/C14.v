(* C14 -- value semantics: operations never disturb operands, argument arrays or other tensors.  Statements only.
   Model: Model/Heap.v (a heap of cells: Tensor objects, Python lists, torch tensors, storages, argument arrays; objects
   may share cells; an operation's effect is a list of Alloc / Write / Rebind / NewObject events).  What an object
   decompresses to is ANY function F of the unfolding of the heap from its root.  The discipline is the decidable
   predicate safe_step: no mutation of a cell reachable from a live object other than the in-place target.
   Tie to the implementation: harness/props/c14.py records the effect trace of every history executed on the real
   tntorch and Harness/H_C14.v `check` evaluates safe_step / the effect table along it (theorems C14_checked_trace_safe, C14_checked_trace_changes_only_target). *)
From TN Require Import Proofs.HeapP Harness.H_C14.

(* one step: every live object other than the in-place target decompresses exactly as before *)
Theorem C14_step_isolation : forall (D : Type) (F : tree -> D) d s st r,
  safe_step d s st = true -> In r (live s) -> is_tgt (s_tgt st) r = false ->
  decomp F d (exec s st) r = decomp F d s r.
Proof. exact decomp_isolation. Qed.

(* operands, bystanders and argument arrays of an operation without in-place target *)
Theorem C14_pure_operands_unchanged : forall (D : Type) (F : tree -> D) d s evs r,
  safe_step d s (mkStep None evs) = true -> In r (live s) ->
  decomp F d (exec s (mkStep None evs)) r = decomp F d s r.
Proof. exact pure_step_isolation. Qed.

(* any interleaving: at every step of every accepted history *)
Theorem C14_history_every_step : forall (D : Type) (F : tree -> D) d pre st post s r,
  safe_run d s (pre ++ st :: post) = true ->
  In r (live (run s pre)) -> is_tgt (s_tgt st) r = false ->
  decomp F d (run s (pre ++ [st])) r = decomp F d (run s pre) r.
Proof. exact history_step_isolation. Qed.

(* an object that is never the in-place target keeps its value through the whole history, from its creation on *)
Theorem C14_history_isolation : forall (D : Type) (F : tree -> D) d pre post s r,
  safe_run d s (pre ++ post) = true -> In r (live (run s pre)) ->
  Forall (fun st => is_tgt (s_tgt st) r = false) post ->
  decomp F d (run s (pre ++ post)) r = decomp F d (run s pre) r.
Proof. exact history_isolation_from. Qed.

(* allocation and registration of new objects can never break the discipline in a closed heap *)
Theorem C14_alloc_newobject_safe : forall d s tgt e, closed s ->
  match e with Alloc c _ => allocated (hp s) c = false | NewObject _ => True | _ => False end ->
  safe_event (others d s tgt) e = true.
Proof. exact alloc_newobject_safe. Qed.

(* the effect table (Model/Heap.v `table`, read off the code) implies the discipline: whatever an operation does within its
   table entry is safe, provided the target's own Tensor-object / list cells are not shared with another live object *)
Theorem C14_table_implies_safe : forall d k s tgt evs,
  closed s -> lists_exclusive d s tgt ->
  forallb (event_allowed d (table k) s tgt) evs = true ->
  safe_step d s (mkStep tgt evs) = true.
Proof. exact table_conformance_implies_safe. Qed.

(* the discipline is not over-cautious: a Write changing the payload of a cell that an object reaches is visible in it *)
Theorem C14_write_through_shared_cell_visible : forall d h r c p, In c (reach d h r) -> pay (h c) <> p ->
  unfold d (updp h c p) r <> unfold d h r.
Proof. exact write_shared_visible. Qed.

(* what an accepted observed trace establishes *)
Theorem C14_checked_trace_safe : forall os s, check_steps s os = true -> safe_run depth s (map to_step os) = true.
Proof. exact check_steps_safe_run. Qed.

Theorem C14_checked_trace_changes_only_target : forall s o r,
  check_step s o = true -> In r (o_chg o) -> tgt_of (o_tgt o) = Some r.
Proof. exact check_step_changed_is_target. Qed.

Print Assumptions C14_step_isolation.
Print Assumptions C14_pure_operands_unchanged.
Print Assumptions C14_history_every_step.
Print Assumptions C14_history_isolation.
Print Assumptions C14_alloc_newobject_safe.
Print Assumptions C14_table_implies_safe.
Print Assumptions C14_write_through_shared_cell_visible.
Print Assumptions C14_checked_trace_safe.
Print Assumptions C14_checked_trace_changes_only_target.
