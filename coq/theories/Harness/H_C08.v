From TN Require Export Harness.HBase Sem.Fast Model.Cross.
From Coq Require Import QArith Qabs.
(* Oracle replay of tn.cross (and of cross(_minimize=True) behind minimum/argmin): the random integers, maxvol's rows,
   the QR factors of the right-to-left sweep, the number of iterations and the function table are replayed; the model
   recomputes the rank schedule, the index sets, the interface matrices, every argument vector handed to the
   function, the cores and the result.  Compared EXACTLY: argument vectors of every call (validation sample included),
   returned lsets / rsets / Rs, argmin.  Compared within 1e-5 relative to the largest entry: the returned tensor, min. *)
Record case := mkCase {
  c_ts : list (tensor QO);          (* the tensors (for domain=: the meshgrid tensors), Tucker factors included *)
  c_Is : list nat;
  c_ftab : list Q;                  (* the function on the grid, row-major *)
  c_ranks : list nat;               (* [1] + requested ranks + [1] *)
  c_kick : option nat; c_rmax : nat;
  c_randint : rows;                 (* np.random.randint answers of lines 281-284, one row per index tuple *)
  c_valpos : rows;                  (* np.random.choice answers: the validation positions *)
  c_valxs : list (list Q);          (* arguments of the validation call, one vector per tensor *)
  c_iters : list xiter;
  c_minimize : bool;
  c_lsets : list rows; c_rsets : list rows; c_Rs : list nat;     (* info['lsets'], info['rsets'], info['Rs'] *)
  c_dense : list Q;                 (* returned tensor, row-major *)
  c_argmin : list nat; c_min : Q }.

Definition maxabs (l : list Q) : Q := fold_right (fun x acc => if Qle_bool acc (Qabs x) then Qabs x else acc) 0 l.
Definition cmp_scaled (scale : Q) (x y : Q) : bool := Qle_bool (Qabs (x - y)) ((1 # 100000) * (1 + scale)).
Definition rows_eqb : rows -> rows -> bool := list_eqb (list_eqb Nat.eqb).

Definition check (c : case) : bool :=
  let ts := map (fun t => map (@core QO) (decompress t)) (c_ts c) in
  let s := cross_run ts (c_Is c) (c_ftab c) (c_ranks c) (c_kick c) (c_rmax c) (c_randint c) (c_iters c) in
  (* validation call: entries of the given tensors at the sampled positions *)
  Nat.eqb (length (c_ts c)) (length (c_valxs c)) &&
  forallb (fun p => qlist_eqb (map (fun pos => eval_l (K:=QO) (sem (fst p)) pos) (c_valpos c)) (snd p))
          (combine (c_ts c) (c_valxs c)) &&
  forallb (in_range (c_Is c)) (c_valpos c) &&
  (* the run: arguments of every call, schedule, index sets *)
  x_ok s && forallb (in_range (c_Is c)) (x_evals s) &&
  (* every recorded argument is the entry of the given tensor at the grid point the model requested *)
  forallb (fun k => qlist_eqb (flat_map (fun sp => nth k (st_xs sp) []) (flat_map it_steps (c_iters c)))
                              (map (fun p => eval_l (K:=QO) (sem (nth k (c_ts c) [])) p) (rev (x_evals s))))
          (seq 0 (length (c_ts c))) &&
  list_eqb Nat.eqb (x_Rs s) (c_Rs c) && list_eqb rows_eqb (x_ls s) (c_lsets c) && list_eqb rows_eqb (x_rs s) (c_rsets c) &&
  (if c_minimize c then
     match x_argmin s with
     | Some p => list_eqb Nat.eqb p (c_argmin c) &&
                 cmp_scaled (maxabs (c_ftab c)) (nth (flat_index (c_Is c) p) (c_ftab c) 0) (c_min c) &&
                 Qle_bool (minq (c_ftab c)) (nth (flat_index (c_Is c) p) (c_ftab c) 0)
     | None => false
     end
   else
     let t' := result_tensor s in
     shape_eqb (shape t') (c_Is c) &&
     list_cmp (cmp_scaled (maxabs (c_dense c))) (dense_of (eval_l (K:=QO) (sem t')) (shape t')) (c_dense c)).
