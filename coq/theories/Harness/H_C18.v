(* C18 correspondence: the executable batch model against the implementation's recorded results.
   Per case: the batch operands, the operation, whether the implementation returned, the dense result of every
   batch element, and (when small enough) the implementation's result cores and factors themselves. *)
From TN Require Export Harness.HBase Sem.Fast Model.Batch.
From Coq Require Import QArith.

Section H.
Variable K : Ops.
Variable cmp : K -> K -> bool.

Inductive bop :=
| OTorch (t : btensor K)
| OAdd (t u : btensor K)
| OSub (t u : btensor K)                 (* t + (-1) * u *)
| OMul (t u : btensor K)
| OSmul (c : K) (t : btensor K)          (* t * c, c * t, t / (1/c): compared on the decompression only *)
| OSadd (c : K) (t : btensor K)          (* t + c, c + t, t - (-c) *)
| ORsub (c : K) (t : btensor K)          (* c - t = (-1) * t + c *)
| OSel (sel : list nat) (t : btensor K)  (* t[slice] / t[list] on the batch mode *)
| OSelInt (k : nat) (t : btensor K).     (* t[k] *)

Record case := mkCase {
  c_op : bop;
  c_ok : bool;                           (* the implementation returned a result *)
  c_shape : list nat;                    (* non-batch shape of the result *)
  c_dense : list (list K);               (* per batch element, row-major *)
  c_cores : option (btensor K) }.        (* the implementation's result representation *)

Definition neg_phis (n : nat) : list K := first_scaled (neg1 (K:=K)) n.

Definition run (o : bop) : option (btensor K) :=
  match o with
  | OTorch t => Some t
  | OAdd t u => add_b t u
  | OSub t u => add_b t (smul_b (neg_phis (length (bmodes u))) u)
  | OMul t u => mul_b t u
  | OSmul c t => Some (smul_b (first_scaled c (length (bmodes t))) t)
  | OSadd c t => sadd_b c t
  | ORsub c t => sadd_b c (smul_b (neg_phis (length (bmodes t))) t)
  | OSel sel t => Some (select_b (length sel) (fun bb => nth bb sel O) t)
  | OSelInt k t => Some (select_b 1 (fun _ => k) t)
  end.

Definition forall_lt (n : nat) (f : nat -> bool) : bool := forallb f (seq 0 n).

Definition core_eqb (B : nat) (c d : bcdata K) : bool :=
  match c, d with
  | BTT a s b g, BTT a' s' b' g' =>
      Nat.eqb a a' && Nat.eqb s s' && Nat.eqb b b' &&
      forall_lt B (fun bb => forall_lt a (fun p => forall_lt s (fun j => forall_lt b (fun q => cmp (g bb p j q) (g' bb p j q)))))
  | BCP s r g, BCP s' r' g' =>
      Nat.eqb s s' && Nat.eqb r r' &&
      forall_lt B (fun bb => forall_lt s (fun j => forall_lt r (fun k => cmp (g bb j k) (g' bb j k))))
  | _, _ => false
  end.
Definition fac_eqb (B : nat) (f f' : bfacT K) : bool :=
  match f, f' with
  | None, None => true
  | Some (di, s, U), Some (di', s', U') =>
      Nat.eqb di di' && Nat.eqb s s' &&
      forall_lt B (fun bb => forall_lt di (fun i => forall_lt s (fun j => cmp (U bb i j) (U' bb i j))))
  | _, _ => false
  end.
Definition bt_eqb (r r' : btensor K) : bool :=
  Nat.eqb (bsz r) (bsz r') &&
  list_cmp (fun m m' => core_eqb (bsz r) (bcore m) (bcore m') && fac_eqb (bsz r) (bfac m) (bfac m')) (bmodes r) (bmodes r').

(* decompression of every batch element of a model result *)
Definition dense_b (r : btensor K) : list (list K) :=
  map (fun bb => dense_of (eval_l (sem (slice_b r bb))) (bshape_of (bmodes r))) (seq 0 (bsz r)).
(* the model of torch(): the walk of the code *)
Definition dense_torch (t : btensor K) : list (list K) :=
  map (fun bb => map (torch_fin (torch_b t) bb) (seq 0 (f_rows (torch_b t)))) (seq 0 (bsz t)).

Definition dense_cmp := list_cmp (list_cmp cmp).

Definition check (c : case) : bool :=
  match run (c_op c) with
  | None => negb (c_ok c)
  | Some r =>
      c_ok c && shape_eqb (bshape_of (bmodes r)) (c_shape c) && dense_cmp (dense_b r) (c_dense c) &&
      (match c_op c with OTorch t => dense_cmp (dense_torch t) (c_dense c) | _ => true end) &&
      (match c_cores c with Some r' => bt_eqb r r' | None => true end)
  end.
End H.

Definition checkZ := check ZO cmpZ.
Definition checkQ := check QO cmpQ.
Definition caseT := (case ZO + case QO)%type.
Definition cZ (c : case ZO) : caseT := inl c.
Definition cQ (c : case QO) : caseT := inr c.
Definition check_any (c : caseT) : bool := match c with inl z => checkZ z | inr q => checkQ q end.

(* carrier-specialised constructors (the harness prints these) *)
Definition zBTT := @lit_btt ZO. Definition zBCP := @lit_bcp ZO. Definition zBU := @lit_bU ZO.
Definition zBM := @mkBMode ZO. Definition zBT := @mkBT ZO.
Definition qBTT := @lit_btt QO. Definition qBCP := @lit_bcp QO. Definition qBU := @lit_bU QO.
Definition qBM := @mkBMode QO. Definition qBT := @mkBT QO.
Definition zNoU : bfacT ZO := None. Definition qNoU : bfacT QO := None.
Definition zCase := mkCase ZO. Definition qCase := mkCase QO.
Definition zTorch := @OTorch ZO. Definition zAdd := @OAdd ZO. Definition zSub := @OSub ZO. Definition zMul := @OMul ZO.
Definition zSmul := @OSmul ZO. Definition zSadd := @OSadd ZO. Definition zRsub := @ORsub ZO.
Definition zSel := @OSel ZO. Definition zSelInt := @OSelInt ZO.
Definition qTorch := @OTorch QO. Definition qAdd := @OAdd QO. Definition qSub := @OSub QO. Definition qMul := @OMul QO.
Definition qSmul := @OSmul QO. Definition qSadd := @OSadd QO. Definition qRsub := @ORsub QO.
Definition qSel := @OSel QO. Definition qSelInt := @OSelInt QO.
Definition zNoCores : option (btensor ZO) := None. Definition qNoCores : option (btensor QO) := None.
