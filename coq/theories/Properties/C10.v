(* C10 -- ANOVA decomposition.  Statements only.  Model: Model/Anova.v (anova_decomposition applies to every
   mode the matrix [w ; I - 1 w^T]; undo adds row 0 back). *)
From TN Require Import Proofs.AnovaP Proofs.ArithP Proofs.SobolP Proofs.TruncateP Alg.Inst Harness.HBase.

Section C10.
Variable K : Ops.
Hypothesis Kth : laws K.
Local Open Scope K_scope.

(* the extended tensor: its entry at j is the dense function transformed, mode by mode, by row j_n of
   amat w_n: row 0 = expectation under the marginal, row i+1 = evaluation at i minus the expectation,
   i.e. the ANOVA term of S = {n : j_n > 0} at x_n = j_n - 1 *)
Theorem C10_extended : forall ws (cs : list (score K)) idx, cs <> [] -> length ws = length cs ->
  length idx = length cs ->
  eval (anova_net ws cs) idx = dlin (map amat ws) (sshape cs) (eval cs) idx.
Proof. exact (anova_extended K Kth). Qed.

(* selecting all terms and undoing returns the original tensor (no condition on the marginals) *)
Theorem C10_undo : forall ws (cs : list (score K)) idx, length ws = length cs ->
  chain (match cs with c :: _ => rl c | [] => O end) cs = true -> in_range (sshape cs) idx = true ->
  eval (undo_net (anova_net ws cs)) idx = eval cs idx.
Proof. exact (undo_anova K Kth). Qed.

(* centring: under a marginal that sums to 1 the non-empty rows average to zero, so every term has zero
   mean along each of its variables; and row 0 is the mean *)
Theorem C10_centred : forall (w : nat -> K) n k, sumn n w = 1 -> (k < n)%nat ->
  sumn n (fun i => w i * amat w (S i) k) = 0.
Proof. exact (amat_centred K Kth). Qed.

Theorem C10_reconstruct : forall (w : nat -> K) n i k, (i < n)%nat ->
  sumn (S n) (fun j => bmat i j * amat w j k) = delta i k.
Proof. exact (bmat_amat K Kth). Qed.

(* truncate_anova(t, mask, keepdim=True) = undo(mask(anova(t))) is the mask-weighted sum of the ANOVA terms: the term of
   subset al at x is the entry of the extended tensor at sel al x (0 where the variable is absent, x_n + 1 where present) *)
Theorem C10_truncate : forall (ws : list (nat -> K)) (mask cs r : list (score K)) x,
  good K cs -> good K mask -> length ws = length cs -> length mask = length cs ->
  sshape mask = repeat 2%nat (length mask) ->
  truncate_net K ws mask cs = Some r -> in_range (sshape cs) x = true ->
  eval r x = sumidx (repeat 2%nat (length cs)) (fun al => eval mask al * eval (anova_net ws cs) (sel al x)).
Proof. exact (truncate_sound K Kth). Qed.
(* a term depends only on its own variables *)
Theorem C10_term_depends_only : forall al x y, length x = length y ->
  (forall n, nth n al O <> O -> nth n x O = nth n y O) -> sel al x = sel al y.
Proof. exact sel_depends_only. Qed.
(* distinct terms are orthogonal under the product measure (Parseval form): E[F G] = sum over the extended index of
   mu(e) (A F)(e) (A G)(e); with F = G the term variances add up to the second moment *)
Theorem C10_terms_orthogonal : forall (ws : list (nat -> K)) ds (F G : list nat -> K), normalised K ws ds ->
  sumidx (map S ds) (fun e => mprod K ws e * (dlin (map amat ws) ds F e * dlin (map amat ws) ds G e)) =
  sumidx ds (fun x => wprod K ws x * (F x * G x)).
Proof. exact (anova_parseval K Kth). Qed.
End C10.

Print Assumptions C10_extended.
Print Assumptions C10_undo.
Print Assumptions C10_centred.
Print Assumptions C10_reconstruct.
Print Assumptions C10_truncate.
Print Assumptions C10_term_depends_only.
Print Assumptions C10_terms_orthogonal.
