"""C14: value semantics - operations never disturb operands, argument arrays or other tensors.

A case is a *history*: an initial pool of explicit tensors and a list of operation descriptors
{"op": name, "a": i, "b": j, "seed": s}.  Operand indices address pool slots modulo the current number of
slots; every tensor-returning ("new") operation opens one new slot (empty if the operation failed or did not return a
tensor), so the slot layout of a history - and therefore which slot an in-place step may change - is a function of the
history alone.  Arguments that depend on the operand's current shape (keys, dims, matrices, marginals, index
arrays ...) are drawn at run time from random.Random(step seed), which keeps every sub-history valid (shrinking).

run()      executes the history on tntorch and *observes*: before/after every step it reads the cores and factors of
           every live tensor (raw reads only, no tntorch call) and reports per step which slots changed and how
           (dense value computed by an independent NumPy contraction / bit pattern of cores and factors / core kinds and
           factor presence / shapes = ranks / torch _version counters) and which argument arrays changed.
expected() is the permission: the dense value of the initial pool (lib.dense_np of the case) and, per step, the one slot
           that the step is allowed to change (the target of a documented in-place method) - nothing for pure operations.
agree()    every observed change must be permitted.
"""
from lib import *
import io, contextlib

CAP_NUMEL, CAP_DIM, CAP_RANK, CAP_SLOTS = 1500, 5, 24, 12


class Skip(Exception):
    pass


# ----------------------------------------------------------------------------------------------- observation

def np_of(p):
    return p.detach().cpu().numpy()


def dense_of(t):
    """independent dense evaluation (NumPy) from raw reads of t.cores / t.Us; open outer bonds are summed"""
    cur = None
    shape = []
    for c, U in zip(t.cores, t.Us):
        g = np.asarray(np_of(c), dtype=np.float64)
        if g.ndim == 2:
            s, R = g.shape
            d = np.zeros((R, s, R))
            for k in range(R):
                d[k, :, k] = g[:, k]
            g = d
        if U is not None:
            g = np.einsum("pjq,ij->piq", g, np.asarray(np_of(U), dtype=np.float64))
        if cur is None:
            cur = np.ones((1, g.shape[0]))
        shape.append(g.shape[1])
        cur = np.einsum("ap,piq->aiq", cur, g).reshape(-1, g.shape[2])
    return cur.sum(axis=1).reshape(shape)


def parts(t):
    return list(t.cores) + list(t.Us)


def bits(p):
    return np.ascontiguousarray(np_of(p)).tobytes()


def idx_bits(t):
    """the idxs annotation (what tn.mask and mask-tensor keys read): part of what the tensor means"""
    out = []
    for i in getattr(t, "idxs", None) or []:
        try:
            out.append(None if i is None else np.asarray(np_of(i) if isinstance(i, torch.Tensor) else i).tobytes())
        except Exception:
            out.append(b"?")
    return out


def snap(t):
    ps = parts(t)
    return {"objs": ps, "idxs": idx_bits(t), "bits": [None if p is None else bits(p) for p in ps],
            "vers": [None if p is None else p._version for p in ps],
            "kinds": [c.dim() for c in t.cores], "hasU": [U is not None for U in t.Us],
            "shapes": [None if p is None else tuple(p.shape) for p in ps], "dense": dense_of(t)}


def same_dense(d0, d1, tol=1e-9):
    if d0.shape != d1.shape:
        return False
    if d0.tobytes() == d1.tobytes():
        return True
    return close(d1, d0, tol)


def diff(s, t):
    """kinds of change of tensor t relative to snapshot s"""
    out = []
    ps = parts(t)
    if [c.dim() for c in t.cores] != s["kinds"] or [U is not None for U in t.Us] != s["hasU"]:
        out.append("format")
    shapes = [None if p is None else tuple(p.shape) for p in ps]
    if shapes != s["shapes"]:
        out.append("ranks")
    try:
        d = dense_of(t)
        if d.shape != s["dense"].shape:
            out.append("shape")
        elif not same_dense(s["dense"], d):
            out.append("dense")
    except Exception:
        out.append("dense")
    if "dense" not in out and "shape" not in out and "ranks" not in out and idx_bits(t) != s.get("idxs", idx_bits(t)):
        out.append("idxs")
    if len(ps) == len(s["objs"]):
        if any((p is None) != (b is None) or (p is not None and bits(p) != b) for p, b in zip(ps, s["bits"])):
            out.append("bits")
        if any(p is not None and p is o and p._version != v for p, o, v in zip(ps, s["objs"], s["vers"])):
            out.append("version")
    else:
        out.append("bits")
    return out


def storages(t):
    return set(p.untyped_storage().data_ptr() for p in parts(t) if p is not None)


class ArgArray:
    def __init__(self, label, obj):
        self.label = label; self.obj = obj
        if isinstance(obj, torch.Tensor):
            self.bits = bits(obj); self.ver = obj._version; self.shape = tuple(obj.shape); self.dtype = str(obj.dtype)
        else:
            self.bits = np.ascontiguousarray(obj).tobytes(); self.ver = None; self.shape = tuple(obj.shape); self.dtype = str(obj.dtype)

    def changed(self):
        o = self.obj
        if tuple(o.shape) != self.shape or str(o.dtype) != self.dtype:
            return "shape/dtype"
        if isinstance(o, torch.Tensor):
            if bits(o) != self.bits:
                return "values"
            if o._version != self.ver:
                return "version"
            return None
        return "values" if np.ascontiguousarray(o).tobytes() != self.bits else None


class ArgList:
    """a Python list/tuple passed as an argument: same length and the very same element objects afterwards"""
    def __init__(self, label, obj):
        self.label = label; self.obj = obj; self.items = list(obj)

    def changed(self):
        o = list(self.obj)
        if len(o) != len(self.items) or any(x is not y and not (isinstance(x, (int, float)) and x == y) for x, y in zip(o, self.items)):
            return "list contents"
        return None



# ----------------------------------------------------------------------------------------------- heap tracer (Coq side)
# Observes the Python object graph of every live tensor / argument (identity of Tensor, list, torch.Tensor, storage
# objects; _version counters; contents) and derives, per step, the primitive events of the heap model
# (coq/theories/Model/Heap.v): Alloc / Write / Rebind / NewObject.  Raw attribute reads only - no tntorch call.

K_NONE, K_TENSOR, K_LIST, K_TORCH, K_STORAGE, K_ARGLIST, K_NDARRAY = 0, 1, 2, 3, 4, 5, 6
NONE_CELL = 1


def storage_bytes(p):
    st = p.untyped_storage()
    if st.nbytes() == 0:
        return b""
    return torch.empty(0, dtype=torch.uint8).set_(st).numpy().tobytes()


def np_base(a):
    while isinstance(getattr(a, "base", None), np.ndarray):
        a = a.base
    return a


class Tracer:
    def __init__(self):
        self.ids = {}; self.keep = []; self.nodes = {}; self.vers = {}; self.pays = {}
        self.steps = []                      # emitted trace: dicts {cls, tgt, evs, res, chg}
        self.pending = []                    # events of argument registrations of the current step
        self.ids[("none",)] = NONE_CELL
        self.nodes[NONE_CELL] = (K_NONE, 0, ())
        self.pending.append(("A", NONE_CELL, K_NONE, 0, ()))

    def cell(self, key, obj):
        c = self.ids.get(key)
        if c is None:
            c = len(self.ids) + 1
            self.ids[key] = c
            self.keep.append(obj)            # ids / addresses are never recycled while the history runs
        return c

    def payid(self, b):
        k = self.pays.get(b)
        if k is None:
            k = len(self.pays) + 1
            self.pays[b] = k
        return k

    # ---- scanning
    def scan_torch(self, p, out, vers):
        c = self.cell(("t", id(p)), p)
        if c in out:
            return c
        ptr = p.untyped_storage().data_ptr()
        sc = self.cell(("s", ptr) if ptr else ("s0", id(p)), p)
        meta = (tuple(p.shape), tuple(p.stride()), p.storage_offset(), str(p.dtype))
        out[c] = (K_TORCH, self.payid(repr(meta).encode()), (sc,))
        if sc not in out:
            out[sc] = (K_STORAGE, self.payid(storage_bytes(p)), ())
        vers[c] = (p._version, sc)
        return c

    def scan_numpy(self, a, out, vers):
        c = self.cell(("a", id(a)), a)
        if c in out:
            return c
        b = np_base(a)
        ptr = b.ctypes.data
        sc = self.cell(("s", ptr) if ptr else ("s0", id(a)), b)
        meta = (tuple(a.shape), tuple(a.strides), a.ctypes.data - ptr, str(a.dtype))
        out[c] = (K_NDARRAY, self.payid(repr(meta).encode()), (sc,))
        if sc not in out:
            out[sc] = (K_STORAGE, self.payid(np.ascontiguousarray(b).tobytes()), ())
        return c

    def scan_tensor(self, t, out, vers):
        r = self.cell(("T", id(t)), t)
        if r in out:
            return r
        lc = self.cell(("L", id(t.cores)), t.cores); lu = self.cell(("L", id(t.Us)), t.Us)
        out[r] = (K_TENSOR, 0, (lc, lu))
        for L, lcell in ((t.cores, lc), (t.Us, lu)):
            if lcell not in out:
                out[lcell] = (K_LIST, 0, tuple(NONE_CELL if q is None else self.scan_torch(q, out, vers) for q in L))
        return r

    def scan_arglist(self, L, out, vers):
        c = self.cell(("AL", id(L)), L)
        if c in out:
            return c
        refs = []; toks = []
        for x in L:
            if x is None:
                refs.append(NONE_CELL)
            elif isinstance(x, torch.Tensor):
                refs.append(self.scan_torch(x, out, vers))
            elif isinstance(x, np.ndarray):
                refs.append(self.scan_numpy(x, out, vers))
            elif isinstance(x, (list, tuple)):
                refs.append(self.scan_arglist(x, out, vers))
            elif isinstance(x, tn.Tensor):
                toks.append(("T", self.cell(("T", id(x)), x)))      # identity only: the list holds the object, not its value
            else:
                toks.append(repr(x))
        out[c] = (K_ARGLIST, self.payid(repr(toks).encode()), tuple(refs))
        return c

    def scan(self, obj, out, vers):
        if isinstance(obj, tn.Tensor):
            return self.scan_tensor(obj, out, vers)
        if isinstance(obj, torch.Tensor):
            return self.scan_torch(obj, out, vers)
        if isinstance(obj, np.ndarray):
            return self.scan_numpy(obj, out, vers)
        return self.scan_arglist(obj, out, vers)

    # ---- events
    def diff(self, out, vers):
        """events that turn the mirrored model state into the observed one (restricted to the scanned cells)"""
        allocs = []; writes = []; rebinds = []; written = set()
        for c, nd in out.items():
            old = self.nodes.get(c)
            if old is None:
                allocs.append(("A", c, nd[0], nd[1], nd[2]))
            else:
                if old[1] != nd[1] or old[0] != nd[0]:
                    writes.append(("W", c, nd[1])); written.add(c)
                if old[2] != nd[2]:
                    rebinds.append(("R", c, nd[2]))
            self.nodes[c] = nd
        for c, (v, sc) in vers.items():
            ov = self.vers.get(c)
            if ov is not None and ov[0] != v and c not in written and sc not in written and ov[1] == sc:
                writes.append(("W", sc, out[sc][1])); written.add(sc)      # in-place write that left no visible difference
            self.vers[c] = (v, sc)
        return allocs + writes + rebinds

    def register(self, obj):
        """an argument array / list created by the harness: becomes a live root before the operation runs"""
        out = {}; vers = {}
        r = self.scan(obj, out, vers)
        self.pending += self.diff(out, vers) + [("N", r)]
        return r

    def flush_pending(self):
        if self.pending:
            self.steps.append({"cls": "KHarness", "tgt": NONE_CELL, "evs": self.pending, "res": [], "chg": []})
            self.pending = []

    def root_of(self, t):
        return self.ids[("T", id(t))]

    def step(self, cls, target, live_objs, results, changed_roots, op=None):
        self.flush_pending()
        out = {}; vers = {}
        for o in live_objs:
            self.scan(o, out, vers)
        res = [self.scan(o, out, vers) for o in results]
        evs = self.diff(out, vers) + [("N", r) for r in res]
        if evs or changed_roots:
            self.steps.append({"cls": cls, "tgt": NONE_CELL if target is None else target, "evs": evs, "res": res,
                               "chg": changed_roots, "op": op})


def coq_event(e):
    if e[0] == "A":
        return "A %d %d %d [%s]" % (e[1], e[2], e[3], ";".join(map(str, e[4])))
    if e[0] == "W":
        return "W %d %d" % (e[1], e[2])
    if e[0] == "R":
        return "R %d [%s]" % (e[1], ";".join(map(str, e[2])))
    return "N %d" % e[1]


def coq_step(st):
    return "St %s %d [%s] [%s] [%s]" % (st["cls"], st["tgt"], ";".join(coq_event(e) for e in st["evs"]),
                                       ";".join(map(str, st["res"])), ";".join(map(str, st["chg"])))


# effect-table class of every operation of the history language (coq/theories/Model/Heap.v, `table`)
OP_KLASS = {}
for _o in ["getitem", "getitem_slices", "getitem_index_matrix", "getitem_masktensor", "item"]:
    OP_KLASS[_o] = "KGetitem"
for _o in ["decompress", "unsqueeze", "squeeze", "unbind", "transpose", "dot_partial"]:
    OP_KLASS[_o] = "KView"
for _o in ["clone"]:
    OP_KLASS[_o] = "KClone"
OP_KLASS["like"] = "KCreate"
OP_KLASS["from_dense"] = "KFromDense"
OP_KLASS["from_cores"] = "KFromDense"      # keeps the caller's arrays (not the caller's lists)
for _o in ["add", "sub", "mul", "scalar_mul", "scalar_add", "neg", "div", "logic", "reduce"]:
    OP_KLASS[_o] = "KArith"
for _o in ["round_tt_copy", "round_tucker_copy", "round_copy"]:
    OP_KLASS[_o] = "KRoundCopy"
for _o in ["sobol", "mean_dimension", "dgsm"]:
    OP_KLASS[_o] = "KSens"
for _o in ["cross", "elementwise", "minimum"]:
    OP_KLASS[_o] = "KCross"
for _o in ["round_tt", "round_tucker", "round", "set_ranks"]:
    OP_KLASS[_o] = "KRoundIn"
for _o in ["orthogonalize", "left_orthogonalize", "right_orthogonalize", "factor_orthogonalize"]:
    OP_KLASS[_o] = "KOrthoIn"
for _o in ["setitem_scalar", "setitem_dense", "setitem_tensor"]:
    OP_KLASS[_o] = "KSetitem"
OP_KLASS["set_factors"] = "KSetFactors"
OP_KLASS["as_leaf"] = "KLeaf"
for _o in ["cp_to_tt", "to_cpu"]:
    OP_KLASS[_o] = "KConvIn"

# ----------------------------------------------------------------------------------------------- run-time arguments

def shp(t):
    return [int(s) for s in t.shape]


def rkey(r, shape, ctx, fancy=True):
    """a random in-range key for `shape`; index arrays as list / numpy / torch (registered as argument arrays)"""
    N = len(shape)
    for _ in range(30):
        ents = []; started = done = False; P = r.randint(1, 3)
        for n in range(N):
            c = r.choices(["int", "slice", "idx", "none"], [0.25, 0.5, 0.15 if fancy else 0.0, 0.1])[0]
            if c == "idx" and done:
                c = "slice"
            if c != "idx" and started:
                done = True
            if c == "int":
                ents.append(r.randint(-shape[n], shape[n] - 1))
            elif c == "slice":
                ents.append(slice(r.choice([None] + list(range(-shape[n], shape[n]))),
                                  r.choice([None] + list(range(-shape[n], shape[n] + 1))), r.choice([None, None, 1, 2])))
            elif c == "idx":
                started = True
                ents.append([r.randint(-shape[n], shape[n] - 1) for _ in range(P)])
            else:
                ents.append(None); ents.append(slice(None))
        if r.random() < 0.3:
            k = r.randint(0, len(ents))
            if all(isinstance(x, slice) and x == slice(None) for x in ents[k:]):
                ents = ents[:k]
                if r.random() < 0.5:
                    ents.append(Ellipsis)
        try:
            probe = torch.zeros(shape)[tuple(ents)]
        except Exception:
            continue
        if probe.numel() == 0:
            continue
        form = r.choice(["list", "np", "torch"])
        key = []
        for x in ents:
            if isinstance(x, list):
                if form == "np":
                    x = ctx.arr("index(np)", np.array(x, dtype=np.int64))
                elif form == "torch":
                    x = ctx.arr("index(torch)", torch.tensor(x, dtype=torch.long))
            key.append(x)
        return tuple(key), list(probe.shape)
    return (slice(None),), list(shape)


def rints(r, shape, lo=-2, hi=2):
    return np.array([r.randint(lo, hi) for _ in range(int(np.prod(shape)))], dtype=np.float64).reshape(shape)


def rmarginals(r, t, ctx, which=None, none_ok=False):
    out = []
    for n, s in enumerate(shp(t)):
        if which is not None and n not in which:
            continue
        if none_ok and r.random() < 0.25:
            out.append(None)                       # documented: None = uniform
        else:
            out.append(ctx.arr("marginal", torch.tensor([float(r.randint(1, 4)) for _ in range(s)])))   # NOT normalised
    return ctx.lst("marginals list", out)


def rdims(r, N, ctx=None):
    k = r.randint(1, N)
    d = sorted(r.sample(range(N), k))
    return d if ctx is None else ctx.lst("dims list", d)


def max_rank(t):
    return max([1] + [int(x) for c in t.cores for x in (c.shape[0], c.shape[-1])])


def partner(ctx, broadcast_ok=True):
    """second operand of the same shape: slot b if compatible, else the first operand itself"""
    a, b = ctx.a, ctx.b
    if b is not None and shp(a) == shp(b):
        return b
    if b is not None and broadcast_ok and len(shp(a)) == len(shp(b)) and \
            all(x == y or x == 1 or y == 1 for x, y in zip(shp(a), shp(b))):
        return b
    return a


def guard_product(a, b, lim=CAP_RANK):
    if max_rank(a) * max_rank(b) > lim:
        raise Skip()


def guard_sum(a, b, lim=CAP_RANK):
    if max_rank(a) + max_rank(b) > lim:
        raise Skip()


# ----------------------------------------------------------------------------------------------- operations
# class "new": returns a tensor (opens a slot); "val": returns a number/array/other; "inplace": documented in-place
# method on operand a (the only slot the step may change).

OPS = {}


def op(name, cls):
    def deco(f):
        OPS[name] = (cls, f)
        return f
    return deco


# ---- derivations / pure tensor-valued
@op("getitem", "new")
def _(c):
    key, _s = rkey(c.r, shp(c.a), c)
    return c.a[key if c.r.random() < 0.8 or len(key) != 1 else key[0]]


@op("getitem_masktensor", "new")
def _(c):
    """t[mask] with a mask tensor that accepts exactly one binary string (first index / the rest of each mode)"""
    cores = [torch.tensor([[[1.0], [0.0]]]) if c.r.random() < 0.5 else torch.tensor([[[0.0], [1.0]]]) for _ in shp(c.a)]
    if any(s_ < 2 for s_ in shp(c.a)):
        raise Skip()
    return c.a[tn.Tensor(cores)]


@op("getitem_slices", "new")
def _(c):
    key, _s = rkey(c.r, shp(c.a), c, fancy=False)
    return c.a[key]


@op("getitem_index_matrix", "new")
def _(c):
    s = shp(c.a); P = c.r.randint(1, 3)
    M = [[c.r.randint(0, x - 1) for x in s] for _ in range(P)]
    idx = c.arr("index matrix", torch.tensor(M, dtype=torch.long)) if c.r.random() < 0.5 else c.arr("index matrix(np)", np.array(M))
    return c.a[idx]


@op("transpose", "new")
def _(c):
    return tn.transpose(c.a)


@op("clone", "new")
def _(c):
    return c.a.clone()


@op("tt", "new")
def _(c):
    return c.a.tt()


@op("decompress", "new")
def _(c):
    N = c.a.dim(); k = c.r.random()
    if k < 0.4:
        return c.a.decompress_tucker_factors()
    if k < 0.6:
        return c.a.decompress_tucker_factors(dim=rdims(c.r, N, c))
    if k < 0.8:
        return c.a.decompress_tucker_factors(_clone=False)
    return c.a.decompress_tucker_factors(dim=rdims(c.r, N, c), _clone=False)


@op("unsqueeze", "new")
def _(c):
    if c.a.dim() >= CAP_DIM:
        raise Skip()
    return tn.unsqueeze(c.a, c.r.randint(0, c.a.dim()))


@op("squeeze", "new")
def _(c):
    s = shp(c.a)
    if 1 not in s or all(x == 1 for x in s):
        raise Skip()
    return tn.squeeze(c.a) if c.r.random() < 0.5 else tn.squeeze(c.a, s.index(1))


@op("add", "new")
def _(c):
    b = partner(c); guard_sum(c.a, b)
    return c.a + b


@op("sub", "new")
def _(c):
    b = partner(c); guard_sum(c.a, b)
    return c.a - b


@op("mul", "new")
def _(c):
    b = partner(c); guard_product(c.a, b)
    return c.a * b


@op("scalar_mul", "new")
def _(c):
    s = c.r.choice([2, -3, 0.5, -1, 0, np.float64(1.5), torch.tensor(2.0)])
    return s * c.a if c.r.random() < 0.5 else c.a * s


@op("scalar_add", "new")
def _(c):
    guard_sum(c.a, c.a)
    s = c.r.choice([2, -3, 0.5, np.float64(1.5), torch.tensor(2.0)])
    return c.r.choice([lambda: s + c.a, lambda: c.a + s, lambda: s - c.a, lambda: c.a - s])()


@op("neg", "new")
def _(c):
    return -c.a


@op("div", "new")
def _(c):
    return c.a / c.r.choice([2, -4.0, 0.5])


@op("logic", "new")
def _(c):
    b = partner(c, broadcast_ok=False); guard_product(c.a, b, 12)
    return c.r.choice([lambda: c.a & b, lambda: c.a | b, lambda: c.a ^ b, lambda: ~c.a])()


@op("round_tt_copy", "new")
def _(c):
    return tn.round_tt(c.a, eps=c.r.choice([1e-14, 1e-3, 0.3])) if c.r.random() < 0.6 else tn.round_tt(c.a, rmax=c.r.randint(1, 2))


@op("round_tucker_copy", "new")
def _(c):
    return tn.round_tucker(c.a, eps=c.r.choice([1e-14, 1e-3, 0.3])) if c.r.random() < 0.6 else tn.round_tucker(c.a, rmax=c.r.randint(1, 2))


@op("round_copy", "new")
def _(c):
    return tn.round(c.a, eps=c.r.choice([1e-14, 1e-3, 0.3]))


@op("cat", "new")
def _(c):
    a = c.a; d = c.r.randrange(a.dim()); b = c.b
    if b is None or b.dim() != a.dim() or any(x != y for n, (x, y) in enumerate(zip(shp(a), shp(b))) if n != d):
        b = a
    guard_sum(a, b)
    if shp(a)[d] + shp(b)[d] > 8:
        raise Skip()
    return tn.cat(c.lst("cat list", [a, b]), dim=d) if c.r.random() < 0.7 else tn.cat(c.lst("cat list", [a, b, a]), dim=d)


@op("flip", "new")
def _(c):
    N = c.a.dim()
    return tn.flip(c.a, rdims(c.r, N, c) if c.r.random() < 0.5 else c.r.randrange(N))


@op("cumsum", "new")
def _(c):
    N = c.a.dim()
    return tn.cumsum(c.a, rdims(c.r, N, c)) if c.r.random() < 0.7 else tn.cumsum(c.a)


@op("repeat", "new")
def _(c):
    s = shp(c.a)
    rep = [c.r.choice([1, 1, 2]) for _ in s]
    if c.r.random() < 0.2 and len(s) < CAP_DIM - 1:
        rep.append(2)
    if int(np.prod(s)) * int(np.prod(rep)) > CAP_NUMEL:
        raise Skip()
    return c.a.repeat(*rep)


@op("pad", "new")
def _(c):
    s = shp(c.a)
    if max(s) > 6:
        raise Skip()
    if c.r.random() < 0.5:
        return tn.pad(c.a, [x + c.r.randint(0, 2) for x in s])
    d = c.r.randrange(len(s))
    return tn.pad(c.a, s[d] + 1, dim=d)


@op("ttm", "new")
def _(c):
    s = shp(c.a); N = len(s)
    dims = rdims(c.r, N, c)
    Us = []
    for d in dims:
        if c.r.random() < 0.25:
            Us.append(c.arr("ttm vector", torch.tensor(rints(c.r, [s[d]]))))
        else:
            Us.append(c.arr("ttm matrix", torch.tensor(rints(c.r, [c.r.randint(1, 3), s[d]]))))
    if len(dims) == 1 and c.r.random() < 0.5:
        if Us[0].dim() == 2 and c.r.random() < 0.5:
            Ut = c.arr("ttm matrix(T)", Us[0].t().contiguous())
            return tn.ttm(c.a, Ut, dim=dims[0], transpose=True)
        return tn.ttm(c.a, Us[0], dim=dims[0])
    if c.r.random() < 0.3:
        return tn.ttm(c.a, c.lst("ttm factor list", Us), dim=dims_array(c, dims, N))
    return tn.ttm(c.a, c.lst("ttm factor list", Us), dim=dims)


def dims_array(c, dims, N):
    """the same modes as a torch / NumPy integer array with negative entries (an argument array like any other)"""
    neg = [d - N for d in dims]
    return c.arr("dims array", torch.tensor(neg) if c.r.random() < 0.6 else np.array(neg))


@op("from_cores", "new")
def _(c):
    """Tensor(list of cores, Us=list of factors): the lists stay the caller's (checked at every later step)"""
    cores = c.lst("constructor core list", [x.clone() for x in c.a.cores])
    Us = c.lst("constructor factor list", [None if U is None else U.clone() for U in c.a.Us])
    return tn.Tensor(cores, Us=Us)


@op("als_completion", "new")
def _(c):
    """completion started from an operand as the initial solution x0"""
    a = c.a
    s = shp(a)
    if any(x.dim() != 3 for x in a.cores) or any(U is not None for U in a.Us) or int(np.prod(s)) > 120 or max_rank(a) > 4:
        raise Skip()
    grid = list(itertools.product(*[range(x) for x in s]))
    X = c.arr("sample coordinates", torch.tensor(grid))
    y = c.arr("sample values", torch.tensor([c.r.uniform(-1, 1) for _ in grid]))
    return tn.als_completion(X, y, ranks_tt=2, x0=a, niter=2, verbose=False)


@op("sum_dim", "new")
def _(c):
    N = c.a.dim()
    dims = rdims(c.r, N, c)
    kd = c.r.random() < 0.5 or len(dims) == N
    if c.r.random() < 0.25:
        return tn.sum(c.a, dim=dims_array(c, dims, N), keepdim=kd)
    return tn.sum(c.a, dim=dims if c.r.random() < 0.7 or len(dims) > 1 else dims[0], keepdim=kd)


@op("mean_dim", "new")
def _(c):
    N = c.a.dim()
    dims = rdims(c.r, N, c)
    kd = c.r.random() < 0.5 or len(dims) == N
    if c.r.random() < 0.5:
        return tn.mean(c.a, dim=dims, marginals=rmarginals(c.r, c.a, c, dims), keepdim=kd)
    if c.r.random() < 0.3:
        return tn.mean(c.a, dim=dims_array(c, dims, N), keepdim=kd)
    return tn.mean(c.a, dim=dims, keepdim=kd)


def _mask_for(c, t):
    cores = [c.arr("mask core", torch.tensor([[[float(c.r.random() < 0.7)] for _ in range(s)]])) for s in shp(t)]
    return tn.Tensor(cores)


@op("mask", "new")
def _(c):
    return tn.mask(c.a, _mask_for(c, c.a))


@op("unbind", "new")
def _(c):
    d = c.r.randrange(c.a.dim())
    if c.a.dim() == 1:
        raise Skip()
    k = c.r.random()
    if k < 0.2:        # the mode as a 0-d integer array (an argument array like any other)
        dd = c.arr("dim 0-d array", torch.tensor(d - c.a.dim()) if c.r.random() < 0.5 else np.array(d - c.a.dim()))
        out = tn.unbind(c.a, dd)
    else:
        out = tn.unbind(c.a, d if k < 0.75 else d - c.a.dim())
    return out[c.r.randrange(len(out))]


@op("dot_partial", "new")
def _(c):
    a = c.a
    if a.dim() < 2:
        raise Skip()
    k = c.r.randint(1, a.dim() - 1)
    b = partner(c, broadcast_ok=False)
    guard_product(a, b, 12)
    if c.r.random() < 0.5:
        return tn.dot(a, b, k=k)
    lead = a[tuple([slice(None)] * k + [0] * (a.dim() - k))]
    return tn.dot(lead, b) if c.r.random() < 0.5 else tn.dot(b, lead)


@op("anova", "new")
def _(c):
    return tn.anova_decomposition(c.a, marginals=rmarginals(c.r, c.a, c, none_ok=True) if c.r.random() < 0.6 else None)


@op("undo_anova", "new")
def _(c):
    return tn.undo_anova_decomposition(c.a)


@op("truncate_anova", "new")
def _(c):
    N = c.a.dim(); x = tn.symbols(N)
    m = c.r.choice([lambda: tn.only(x[0]), lambda: x[0], lambda: x[0] | x[-1], lambda: ~x[-1]])()
    return tn.truncate_anova(c.a, m, keepdim=c.r.random() < 0.5, marginals=rmarginals(c.r, c.a, c) if c.r.random() < 0.5 else None)


@op("partial", "new")
def _(c):
    d = c.r.randrange(c.a.dim())
    k = c.r.random()
    if k < 0.4:
        return tn.partial(c.a, d)
    if k < 0.7:
        return tn.partial(c.a, d, bounds=[0.0, 2.0], periodic=c.r.random() < 0.3)
    return tn.partial(c.a, rdims(c.r, c.a.dim(), c), order=1)


@op("gradient", "new")
def _(c):
    out = tn.gradient(c.a) if c.r.random() < 0.6 else tn.gradient(c.a, dim=rdims(c.r, c.a.dim(), c))
    if isinstance(out, (list, tuple)):
        return out[c.r.randrange(len(out))]
    return out


@op("laplacian", "new")
def _(c):
    return tn.laplacian(c.a)


@op("cross", "new")
def _(c):
    b = partner(c, broadcast_ok=False)
    if int(np.prod(shp(c.a))) > 200:
        raise Skip()
    f = c.r.choice([lambda x, y: x + y, lambda x, y: x * y - 1, lambda x, y: torch.abs(x) + y ** 2])
    return tn.cross(function=f, tensors=[c.a, b], verbose=False, suppress_warnings=True, max_iter=2, ranks_tt=2)


@op("elementwise", "new")
def _(c):
    if int(np.prod(shp(c.a))) > 200:
        raise Skip()
    f = c.r.choice([tn.abs, tn.exp, tn.sin, tn.tanh, tn.sigmoid])
    return f(c.a)


@op("from_dense", "new")
def _(c):
    N = c.r.randint(1, 3); s = [c.r.randint(1, 3) for _ in range(N)]
    X = rints(c.r, s)
    X = c.arr("dense data(np)", X) if c.r.random() < 0.4 else c.arr("dense data", torch.tensor(X))
    k = c.r.random()
    if k < 0.25:
        return tn.Tensor(X)
    if k < 0.45:
        return tn.Tensor(X, ranks_tt=c.r.randint(1, 2))
    if k < 0.6:
        return tn.Tensor(X, ranks_tucker=c.r.randint(1, 2))
    if k < 0.75:
        return tn.Tensor(X, eps=c.r.choice([1e-6, 0.3]))
    if k < 0.9:
        return tn.Tensor(X, ranks_cp=c.r.randint(1, 2), max_iter=3)
    return tn.Tensor(X, ranks_cp=2, ranks_tucker=2, max_iter=3)


@op("like", "new")
def _(c):
    return c.r.choice([tn.ones_like, tn.zeros_like, tn.rand_like, lambda t: tn.full_like(t, 2.5)])(c.a)


@op("reduce", "new")
def _(c):
    import operator
    b = partner(c, broadcast_ok=False); guard_sum(c.a, b)
    k = c.r.random()
    if k < 0.25:
        return tn.reduce([c.a], operator.add, eps=c.r.choice([0, 1e-6]))       # a sequence of one
    if k < 0.55:
        # a combining function that hands back one of its arguments (the larger one): the rounding inside reduce must
        # still work on a copy
        pick = lambda x, y: x if float(tn.norm(x)) >= float(tn.norm(y)) else y
        kw = {"rmax": 1} if c.r.random() < 0.5 else {"eps": c.r.choice([0, 1e-6])}
        return tn.reduce([c.a, b, c.a] if c.r.random() < 0.5 else [c.a, b], pick, **kw)
    return tn.reduce([c.a, b, c.a], operator.add, eps=c.r.choice([0, 1e-6]))


# ---- pure, value-returning
@op("dot", "val")
def _(c):
    b = partner(c, broadcast_ok=False)
    return tn.dot(c.a, b) if c.r.random() < 0.6 else c.a.dot(b)


@op("dist", "val")
def _(c):
    return tn.dist(c.a, partner(c, broadcast_ok=False))


@op("metrics_pair", "val")
def _(c):
    b = partner(c, broadcast_ok=False)
    return c.r.choice([tn.relative_error, tn.rmse, tn.r_squared])(c.a, b)


@op("metrics_dense", "val")
def _(c):
    X = c.arr("dense operand", torch.tensor(rints(c.r, shp(c.a))))
    f = c.r.choice([tn.dot, tn.dist, tn.relative_error, tn.rmse, tn.r_squared])
    return f(X, c.a) if c.r.random() < 0.5 else f(c.a, X)


@op("norm", "val")
def _(c):
    return c.r.choice([tn.norm, tn.normsq, lambda t: t.norm(), lambda t: t.normsq()])(c.a)


@op("sum", "val")
def _(c):
    return c.r.choice([tn.sum, tn.mean, lambda t: t.sum(), lambda t: t.mean()])(c.a)


@op("var", "val")
def _(c):
    k = c.r.random()
    if k < 0.3:
        return tn.var(c.a, marginals=rmarginals(c.r, c.a, c))
    if k < 0.5:
        return tn.mean(c.a, marginals=rmarginals(c.r, c.a, c))
    return c.r.choice([tn.var, tn.std, lambda t: t.var(), lambda t: t.std()])(c.a)


@op("moments", "val")
def _(c):
    if int(np.prod(shp(c.a))) > 300 or max_rank(c.a) > 6:
        raise Skip()
    k = c.r.random()
    if k < 0.3:
        return tn.raw_moment(c.a, 2, marginals=rmarginals(c.r, c.a, c) if c.r.random() < 0.5 else None)
    if k < 0.5:
        return tn.normalized_moment(c.a, 2, marginals=rmarginals(c.r, c.a, c) if c.r.random() < 0.5 else None)
    if k < 0.7:
        return tn.hadamard_sum([c.a, partner(c, broadcast_ok=False)])
    return c.r.choice([tn.skew, tn.kurtosis])(c.a)


@op("sobol", "val")
def _(c):
    N = c.a.dim(); x = tn.symbols(N)
    m = c.r.choice([lambda: tn.only(x[0]), lambda: x[-1], lambda: x[0] | x[-1], lambda: tn.any(N)])()
    return tn.sobol(c.a, m, marginals=rmarginals(c.r, c.a, c, none_ok=True) if c.r.random() < 0.7 else None)


@op("mean_dimension", "val")
def _(c):
    marg = rmarginals(c.r, c.a, c, none_ok=True) if c.r.random() < 0.7 else None
    return tn.mean_dimension(c.a, marginals=marg) if c.r.random() < 0.5 else tn.dimension_distribution(c.a, marginals=marg)


@op("dgsm", "val")
def _(c):
    marg = rmarginals(c.r, c.a, c)
    if c.r.random() < 0.6:
        return tn.dgsm(c.a, bounds=None if c.r.random() < 0.5 else c.lst("bounds", [[0.0, 1.0] for _ in shp(c.a)]), marginals=marg)
    return tn.active_subspace(c.a, bounds=None, marginals=marg if c.r.random() < 0.7 else None)


@op("hash", "val")
def _(c):
    return tn.hash(c.a)


@op("sample", "val")
def _(c):
    return tn.sample(c.a, P=3, seed=c.r.randint(0, 99))


@op("info", "val")
def _(c):
    a = c.a
    return (a.numel(), a.numcoef(), a.ranks_tt, a.ranks_tucker, a.shape, a.size(), a.dim(), repr(a), str(a), tn.dof(a))


@op("eq", "val")
def _(c):
    b = partner(c, broadcast_ok=False)
    return (c.a == b, c.a != b)


@op("torch", "val")
def _(c):
    return c.r.choice([lambda t: t.torch(), lambda t: t.numpy(), lambda t: t.tucker_core()])(c.a)


@op("item", "val")
def _(c):
    return c.a[tuple(c.r.randint(-x, x - 1) for x in shp(c.a))]


@op("logic_queries", "val")
def _(c):
    if int(np.prod(shp(c.a))) > 64 or any(x != 2 for x in shp(c.a)):
        raise Skip()
    return c.r.choice([tn.relevant_symbols, tn.irrelevant_symbols, tn.is_tautology, tn.is_contradiction,
                       tn.is_satisfiable, tn.accepted_inputs])(c.a)


@op("minimum", "val")
def _(c):
    if int(np.prod(shp(c.a))) > 100:
        raise Skip()
    return c.r.choice([tn.minimum, tn.maximum, tn.argmin])(c.a, verbose=False)


# ---- in-place methods on operand a
@op("round_tt", "inplace")
def _(c):
    c.a.round_tt(eps=c.r.choice([1e-14, 1e-3, 0.3])) if c.r.random() < 0.6 else c.a.round_tt(rmax=c.r.randint(1, 2))


@op("round_tucker", "inplace")
def _(c):
    k = c.r.random()
    if k < 0.5:
        c.a.round_tucker(eps=c.r.choice([1e-14, 1e-3, 0.3]))
    elif k < 0.8:
        c.a.round_tucker(rmax=c.r.randint(1, 2))
    else:
        c.a.round_tucker(eps=1e-3, dim=rdims(c.r, c.a.dim(), c))


@op("round", "inplace")
def _(c):
    c.a.round(eps=c.r.choice([1e-14, 1e-3, 0.3]))


@op("set_ranks", "inplace")
def _(c):
    if c.r.random() < 0.5:
        c.a.ranks_tt = c.r.randint(1, 2)
    else:
        c.a.ranks_tucker = c.r.randint(1, 2)


@op("orthogonalize", "inplace")
def _(c):
    mu = c.r.randint(-c.a.dim(), c.a.dim() - 1)
    if c.r.random() < 0.2:
        mu = c.arr("mu 0-d array", torch.tensor(mu))
    c.a.orthogonalize(mu)


@op("left_orthogonalize", "inplace")
def _(c):
    if c.a.dim() < 2:
        raise Skip()
    c.a.left_orthogonalize(c.r.randint(0, c.a.dim() - 2))


@op("right_orthogonalize", "inplace")
def _(c):
    if c.a.dim() < 2:
        raise Skip()
    c.a.right_orthogonalize(c.r.randint(1, c.a.dim() - 1))


@op("factor_orthogonalize", "inplace")
def _(c):
    c.a.factor_orthogonalize(c.r.randrange(c.a.dim()))


@op("setitem_scalar", "inplace")
def _(c):
    guard_sum(c.a, c.a, 16)
    key, _s = rkey(c.r, shp(c.a), c, fancy=c.r.random() < 0.3)
    key = tuple(k for k in key if k is not None)
    c.a[key] = c.r.choice([9.0, -1, 0, torch.tensor(2.5), np.float64(3.0)])


@op("setitem_dense", "inplace")
def _(c):
    guard_sum(c.a, c.a, 16)
    key, _s = rkey(c.r, shp(c.a), c, fancy=False)
    key = tuple(k for k in key if k is not None)
    vs = list(torch.zeros(shp(c.a))[key].shape)
    if not vs:
        raise Skip()
    V = rints(c.r, vs)
    c.a[key] = c.arr("assigned values(np)", V) if c.r.random() < 0.4 else c.arr("assigned values", torch.tensor(V))


@op("setitem_tensor", "inplace")
def _(c):
    guard_sum(c.a, c.a, 12)
    b = c.b if c.b is not None else c.a
    s = shp(c.a)
    if shp(b) == s and c.r.random() < 0.6:
        d = c.r.randrange(len(s)); k = c.r.randint(1, s[d])
        key = tuple([slice(None)] * d + [slice(0, k)])
        c.a[key] = b[key]
    elif shp(b) == s:
        c.a[tuple(slice(None) for _ in s)] = b
    else:
        key = tuple(slice(0, 1) for _ in s)
        c.a[key] = c.a[tuple(slice(x - 1, x) for x in s)]


@op("set_factors", "inplace")
def _(c):
    name = c.r.choice(["dct", "legendre", "chebyshev", "hermite", "identity"])
    if c.r.random() < 0.5:
        c.a.set_factors(name)
    else:
        c.a.set_factors(name, dim=rdims(c.r, c.a.dim(), c), requires_grad=c.r.random() < 0.2)


@op("as_leaf", "inplace")
def _(c):
    c.a.as_leaf()


@op("cp_to_tt", "inplace")
def _(c):
    c.a._cp_to_tt()


@op("to_cpu", "inplace")
def _(c):
    c.a.to("cpu")


OPCLASS = {k: v[0] for k, v in OPS.items()}
NEW_OPS = sorted(k for k, v in OPCLASS.items() if v == "new")
VAL_OPS = sorted(k for k, v in OPCLASS.items() if v == "val")
INPLACE_OPS = sorted(k for k, v in OPCLASS.items() if v == "inplace")
for _o, _c in OPCLASS.items():
    OP_KLASS.setdefault(_o, "KMetric" if _c == "val" else "KCopyTool")
SLOW_OPS = {"cross", "elementwise", "minimum", "moments", "from_dense", "reduce", "als_completion"}
# derivations whose result is expected to share storage / be closely related to the source
DERIVE_OPS = ["getitem_slices", "getitem", "transpose", "clone", "tt", "decompress", "unsqueeze", "squeeze", "add", "sub",
              "mul", "scalar_mul", "scalar_add", "neg", "flip", "unbind", "sum_dim", "ttm", "cat", "repeat", "mask",
              "round_tt_copy", "round_tucker_copy", "anova", "cumsum", "pad", "dot_partial", "from_cores", "from_cores",
              "getitem_masktensor"]


class Ctx:
    def __init__(self, a, b, r, args, tracer=None):
        self.a, self.b, self.r, self._args, self._tr = a, b, r, args, tracer

    def arr(self, label, obj):
        ar = ArgArray(label, obj)
        if self._tr is not None:
            ar.root = self._tr.register(obj)
        self._args.append(ar)
        return obj

    def lst(self, label, obj):
        ar = ArgList(label, obj)
        if self._tr is not None:
            ar.root = self._tr.register(obj)
        self._args.append(ar)
        return obj


def frames(case):
    """slot layout and permissions of a history: [(target slot or None, new slot or None, a, b)]"""
    n = len(case["pool"]); out = []
    for st in case["history"]:
        cls = OPCLASS[st["op"]]
        a, b = st["a"] % n, st["b"] % n
        new = None
        if cls == "new":
            new = n; n += 1
        out.append({"target": a if cls == "inplace" else None, "new": new, "a": a, "b": b, "cls": cls})
    return out


class Prop:
    ID = "C14"
    LEVEL = "proof"
    COQ_HEADER = "From TN Require Import Harness.H_C14.\nOpen Scope positive_scope.\n"
    CHECK_FN = "check"
    RULE = ("a case is a history over a pool of 1..5 explicit tensors (all format classes) and up to 12 slots: "
            "(i) enumerated aliasing triples: every derivation (slicing, indexing, transpose, clone, tt, "
            "decompress_tucker_factors incl. _clone=False, unsqueeze/squeeze, arithmetic, flip, unbind, partial sums, ttm, cat, "
            "repeat, mask, copying round functions, anova...) x every in-place method (round_tt, round_tucker, round, "
            "rank setters, orthogonalize, left/right/factor_orthogonalize, __setitem__ with scalar/dense/tensor values, "
            "set_factors, as_leaf, _cp_to_tt, to) x which of source/derived tensor is modified, followed by a second "
            "in-place step on the other one; (ii) pure sweeps: every tensor- or value-returning operation (%d + %d of "
            "them, incl. metrics with dense operands, sensitivity analysis with un-normalised marginals, ttm matrices, "
            "index arrays as list/NumPy/torch, creation from dense arrays, cross) on each format of the N=2 lattice; "
            "(iii) view chains (slices of transposes of unsqueezed ... tensors, in-place methods anywhere in the family) and seeded random histories of 5..40 steps mixing all %d operations. After every step all live tensors "
            "(dense value by an independent NumPy contraction of the raw cores, bit patterns, core kinds, factor "
            "presence, shapes/ranks, torch _version counters) and all argument arrays passed so far are compared with "
            "their state before the step. Non-trivial = at least one step executed; distinct = distinct (formats, "
            "operation sequence, seeds). COQ SIDE: for every history the observed effect trace is checked against the heap "
            "model (Model/Heap.v): before/after each step the Python object graph of every live tensor and every argument "
            "array/list is scanned (identity of Tensor, list, torch.Tensor and storage objects, view metadata, storage "
            "bytes, _version counters) and the difference is expressed as Alloc/Write/Rebind/NewObject events; H_C14.check "
            "requires safe_step (no mutated cell is reachable from a live object other than the in-place target), "
            "conformance of the events with the effect-table entry of the operation class (sharing of pre-existing cells "
            "by results only for getitem/view/from-dense classes, Rebind only of the target's own list/Tensor cells for "
            "in-place classes, Write to a pre-existing cell for no class), and that every object the NumPy observer saw "
            "change is one whose unfolding changes in the model. Excluded from the Coq side: batch tensors (not generated), "
            "the idxs lists, requires_grad flags, cells that become unreachable from every live object in the very step "
            "that mutates them, traces beyond 19 KB (prefix checked; counted as traces_truncated)."
            % (len(NEW_OPS), len(VAL_OPS), len(OPS)))
    TRUSTED = ["the observer in harness/props/c14.py (raw reads of t.cores/t.Us, NumPy contraction, tobytes comparison)",
               "torch's _version counter as witness of in-place writes",
               "the table OPCLASS (which operations are documented in-place methods) is the specification of who may change",
               "the heap tracer in harness/props/c14.py (Tracer: id(), untyped_storage().data_ptr(), storage_offset/shape/stride, "
               "_version, storage bytes; all objects ever seen are kept alive so that ids and addresses are never recycled)",
               "OP_KLASS (operation -> effect-table class) and the effect table `table` in coq/theories/Model/Heap.v, read off the code of /repo/tntorch",
               "decompression is a function of the unfolding of the object graph (payloads reachable from the Tensor object) - "
               "cross-checked at every step: every tensor the independent NumPy observer sees change must change in the model"]
    ASSUMPTIONS = ["histories use the public creation paths (fresh core lists); a Tensor built by the caller from another "
                   "tensor's own list object is outside the property",
                   "non-batch tensors, CPU",
                   "for an in-place step, other tensors are compared by decompressed value (1e-9) only; for pure steps every "
                   "live tensor and every argument array must be bit-identical with unchanged format, ranks and version counters"]
    THEOREMS = ["C14_step_isolation", "C14_pure_operands_unchanged", "C14_history_every_step", "C14_history_isolation",
                "C14_alloc_newobject_safe", "C14_table_implies_safe", "C14_write_through_shared_cell_visible", "C14_checked_trace_safe",
                "C14_checked_trace_changes_only_target"]

    def __init__(self):
        self.stats = {}
        self.totals = {"steps": 0, "executed": 0, "errors": 0, "skipped": 0, "tensor_checks": 0, "arg_checks": 0,
                       "inplace_on_aliased": 0, "inplace_executed": 0}

    # ------------------------------------------------------------------------------------------ cases
    def generate(self, rng, tier):
        quick = tier == "quick"
        cases = []

        def mk(pool, hist, kind, **tags):
            ops_used = sorted(set(h["op"] for h in hist))
            tags.update(kind=kind, formats="|".join(tsig(t) for t in pool), npool=len(pool), nsteps=len(hist),
                        N=len(pool[0]["modes"]), n_inplace=sum(OPCLASS[h["op"]] == "inplace" for h in hist))
            for o in ops_used:
                tags["op_" + o] = True
            cases.append({"pool": pool, "history": hist, "tags": tags})

        def step(o, a, b=None):
            return {"op": o, "a": a, "b": a if b is None else b, "seed": rng.randrange(10 ** 9)}

        def same_shape_pool(n, N=None, kinds=None, maxr=3):
            N = N or rng.randint(1, 3)
            shape = [rng.choice([2, 3, 4]) for _ in range(N)]
            if rng.random() < 0.25:
                shape[rng.randrange(N)] = 1
            return [rand_tensor_json(rng, shape, kinds, maxr=maxr) for _ in range(n)]

        # ---- (i) aliasing triples: derive, modify one side in place, then modify the other side
        plain = lambda N: [(rng.choice(["tt", "cp"]), False) for _ in range(N)]
        for d in DERIVE_OPS:
            for ip in INPLACE_OPS:
                for direction in ("source", "derived"):
                    reps = 2 if quick else 6
                    for rep in range(reps):
                        N = rng.randint(2, 3)
                        kinds = plain(N) if (ip.startswith("setitem") and rng.random() < 0.7) else None
                        pool = same_shape_pool(2, N, kinds)
                        first, second = (0, 2) if direction == "source" else (2, 0)
                        ip2 = rng.choice(INPLACE_OPS)
                        hist = [step(d, 0, 1), step(ip, first, 1), step(ip2, second, 1), step("torch", 0), step("norm", 2)]
                        mk(pool, hist, "alias", derive=d, inplace=ip, direction=direction)
        # ---- (ii) pure sweeps on the format lattice
        pure = [o for o in NEW_OPS + VAL_OPS]
        fmts = [list(k) for k in itertools.product(KINDS, repeat=2)] + [[k] for k in KINDS] + \
               [[rng.choice(KINDS) for _ in range(3)] for _ in range(4 if quick else 24)]
        for kinds in fmts:
            for rep in range(2 if quick else 6):
                shape = [rng.choice([2, 3]) for _ in kinds]
                pool = [rand_tensor_json(rng, shape, kinds, maxr=2), rand_tensor_json(rng, shape, None, maxr=2)]
                order = pure[:]; rng.shuffle(order)
                if quick:
                    order = [o for o in order if o not in SLOW_OPS or rng.random() < 0.3]
                for k in range(0, len(order), 12):
                    hist = [step(o, 0, 1) if rng.random() < 0.7 else step(o, 1, 0) for o in order[k:k + 12]]
                    mk(pool, hist, "pure-sweep")
        # binary {2}^N tensors for the logic queries, 1-D and size-1 pools
        for _ in range(4 if quick else 30):
            N = rng.randint(1, 3)
            pool = [rand_tensor_json(rng, [2] * N, None, maxr=2, lo=0, hi=1) for _ in range(2)]
            mk(pool, [step(o, rng.randrange(2), rng.randrange(2)) for o in
                      ["logic", "logic_queries", "sobol", "mask", "truncate_anova", "anova", "mean_dimension", "logic_queries"]], "logic")
        # ---- (iii) view chains: storage-sharing derivations of derivations, in-place methods anywhere in the family
        views = ["getitem_slices", "transpose", "unsqueeze", "squeeze", "decompress", "getitem", "unbind", "clone", "flip", "tt",
                 "from_cores"]
        for _ in range(250 if quick else 2000):
            N = rng.randint(1, 3)
            pool = same_shape_pool(1, N, plain(N) if rng.random() < 0.4 else None)
            hist = [step(rng.choice(views[:6]), 0)]
            for _s in range(rng.randint(4, 10)):
                k = rng.random()
                nslots = 1 + sum(OPCLASS[h["op"]] == "new" for h in hist)
                if k < 0.45:
                    hist.append(step(rng.choice(views), rng.randrange(nslots)))
                elif k < 0.9:
                    hist.append(step(rng.choice(INPLACE_OPS), rng.randrange(nslots), rng.randrange(nslots)))
                else:
                    hist.append(step(rng.choice(["torch", "norm", "sum", "info", "dot"]), rng.randrange(nslots), rng.randrange(nslots)))
            mk(pool, hist, "view-chain")
        # ---- (iii-b) completion started from an operand (x0), then in-place / pure steps around it
        for _ in range(40 if quick else 300):
            N = rng.randint(2, 3)
            pool = same_shape_pool(rng.randint(1, 2), N, [("tt", False)] * N, maxr=2)
            hist = [step("als_completion", 0)]
            for _s in range(rng.randint(1, 4)):
                nslots = len(pool) + sum(OPCLASS[h["op"]] == "new" for h in hist)
                hist.append(step(rng.choice(INPLACE_OPS + ["norm", "als_completion"]), rng.randrange(nslots), rng.randrange(nslots)))
            mk(pool, hist, "completion")
        # ---- (iv) random histories
        light = [o for o in OPS if o not in SLOW_OPS]
        for _ in range(1000 if quick else 6000):
            npool = rng.randint(1, 5)
            k = rng.random()
            if k < 0.3:                                     # no Tucker factors: assignment works on these
                N = rng.randint(1, 3)
                pool = same_shape_pool(npool, N, plain(N))
            elif k < 0.75:
                pool = same_shape_pool(npool)
            else:
                pool = [rand_tensor_json(rng, [rng.choice([1, 2, 3, 4]) for _ in range(rng.randint(1, 3))], None, maxr=3)
                        for _ in range(npool)]
            L = rng.randint(5, 25 if quick else 40)
            hist = []
            for _s in range(L):
                k = rng.random()
                if k < 0.33:
                    o = rng.choice(INPLACE_OPS)
                elif k < 0.8:
                    o = rng.choice(DERIVE_OPS) if rng.random() < 0.6 else rng.choice(NEW_OPS)
                else:
                    o = rng.choice(VAL_OPS)
                if o in SLOW_OPS and rng.random() < (0.8 if quick else 0.5):
                    o = rng.choice(light)
                hist.append(step(o, rng.randrange(64), rng.randrange(64)))
            mk(pool, hist, "random")
        return cases

    # ------------------------------------------------------------------------------------------ runner
    def run(self, case):
        torch.manual_seed(0); np.random.seed(0)          # cross / ALS / rand_like draw from the global generators
        pool = [to_tn(tj) for tj in case["pool"]]
        init = [dense_of(t).reshape(-1).tolist() for t in pool]
        init_shape = [list(dense_of(t).shape) for t in pool]
        snaps = [snap(t) for t in pool]
        args = []
        steps = []
        tr = Tracer()
        for t in pool:
            tr.register(t)
        sink = io.StringIO()
        for k, st in enumerate(case["history"]):
            cls, fn = OPS[st["op"]]
            n = len(pool)
            ia, ib = st["a"] % n, st["b"] % n
            a, b = pool[ia], pool[ib]
            rec = {"op": st["op"], "a": ia, "b": ib}
            self.totals["steps"] += 1
            stt = self.stats.setdefault(st["op"], {"ok": 0, "err": 0, "skipped": 0})
            out = None
            if a is None:
                rec["skipped"] = "empty slot"; stt["skipped"] += 1; self.totals["skipped"] += 1
            else:
                if cls == "inplace":
                    sa = storages(a)
                    rec["aliased"] = sum(1 for i, t in enumerate(pool) if t is not None and i != ia and (storages(t) & sa))
                try:
                    with contextlib.redirect_stdout(sink):
                        out = fn(Ctx(a, b, random.Random(st["seed"]), args, tr))
                    stt["ok"] += 1; self.totals["executed"] += 1
                    if cls == "inplace":
                        self.totals["inplace_executed"] += 1
                        self.totals["inplace_on_aliased"] += 1 if rec.get("aliased") else 0
                except Skip:
                    rec["skipped"] = "guard"; stt["skipped"] += 1; self.totals["skipped"] += 1
                except Exception as e:
                    rec["err"] = type(e).__name__; rec["msg"] = str(e)[:80]; stt["err"] += 1; self.totals["errors"] += 1
            # ---- observe every live tensor and every argument array
            pool_at_step = list(pool)                 # the observer below drops tensors that became unreadable
            changed = []
            for i, t in enumerate(pool):
                if t is None:
                    continue
                self.totals["tensor_checks"] += 1
                try:
                    dk = diff(snaps[i], t)
                except Exception as e:
                    dk = ["unreadable:" + type(e).__name__]
                if dk:
                    changed.append({"slot": i, "kinds": dk})
                    try:
                        snaps[i] = snap(t)
                    except Exception:
                        pool[i] = None; snaps[i] = None
            rec["changed"] = changed
            ach = []
            for ar in args:
                self.totals["arg_checks"] += 1
                w = ar.changed()
                if w:
                    ach.append({"label": ar.label, "what": w, "root": getattr(ar, "root", None)})
                    root = getattr(ar, "root", None)
                    ar.__init__(ar.label, ar.obj)
                    ar.root = root
            rec["args_changed"] = ach
            if cls == "new":
                if isinstance(out, tn.Tensor) and any(out is t for t in pool):
                    rec["returned_operand"] = True      # not a new tensor: any in-place method on it changes the operand
                keep = None
                if isinstance(out, tn.Tensor) and not getattr(out, "batch", False) and not any(out is t for t in pool) \
                        and len(pool) < CAP_SLOTS:
                    try:
                        if out.dim() <= CAP_DIM and 0 < int(np.prod(shp(out))) <= CAP_NUMEL and max_rank(out) <= CAP_RANK:
                            keep = out
                    except Exception:
                        keep = None
                # a result built on an operand's own list object is a latent hazard (any later in-place step on one of the
                # two rebinds entries of the shared list); it is only counted here - the violation shows at that later step
                if keep is not None and any(t is not None and (keep.cores is t.cores or keep.Us is t.Us) for t in pool):
                    self.totals["results_sharing_a_list_object"] = self.totals.get("results_sharing_a_list_object", 0) + 1
                pool.append(keep)
                try:
                    snaps.append(None if keep is None else snap(keep))
                except Exception:
                    pool[-1] = None; snaps.append(None)
                rec["stored"] = keep is not None
            # ---- heap trace of this step (Coq correspondence)
            try:
                chg = [tr.root_of(pool_at_step[ch["slot"]]) for ch in changed if any(x != "version" for x in ch["kinds"])]
                chg += [ac["root"] for ac in ach if ac.get("root") is not None and ac["what"] != "version"]
                livet = [t for t in pool_at_step if t is not None]
                newt = [pool[-1]] if cls == "new" and pool[-1] is not None else []
                tr.step(OP_KLASS[st["op"]], tr.root_of(a) if (cls == "inplace" and a is not None) else None,
                        livet + [ar.obj for ar in args], newt, chg, st["op"])
            except Exception as e:
                tr.steps.append({"broken": type(e).__name__ + ": " + str(e)[:80]})
            steps.append(rec)
        tr.flush_pending()
        return {"ok": True, "init": init, "init_shape": init_shape, "steps": steps, "trace": tr.steps,
                "executed": sum(1 for s in steps if "err" not in s and "skipped" not in s)}

    def expected(self, case):
        return {"ok": True, "init": [dense_np(t).reshape(-1).tolist() for t in case["pool"]],
                "init_shape": [tshape(t) for t in case["pool"]], "frames": frames(case)}

    def agree(self, case, res, exp):
        if not res.get("ok"):
            return False, "the runner itself failed: %s %s" % (res.get("err"), res.get("msg"))
        if res["init_shape"] != exp["init_shape"]:
            return False, "initial pool shapes differ from the specification"
        for i, (x, y) in enumerate(zip(res["init"], exp["init"])):
            if not close(x, y, 1e-12):
                return False, "initial tensor %d does not decompress to its specification" % i
        if len(res["steps"]) != len(exp["frames"]):
            return False, "history not executed to the end"
        for k, (st, fr) in enumerate(zip(res["steps"], exp["frames"])):
            what = "step %d %s(a=slot %d, b=slot %d)" % (k, st["op"], fr["a"], fr["b"])
            if st.get("err"):
                what += " [raised %s]" % st["err"]
            for ch in st["changed"]:
                kinds = ch["kinds"]
                if ch["slot"] == fr["target"]:
                    continue                                  # the documented in-place target
                role = "operand" if ch["slot"] in (fr["a"], fr["b"]) else "bystander"
                if fr["cls"] == "inplace":
                    bad = [x for x in kinds if x in ("dense", "shape") or x.startswith("unreadable")]
                    if bad:
                        return False, "%s: in-place method changed what another tensor (slot %d, %s) decompresses to (%s)" % (
                            what, ch["slot"], role, ",".join(kinds))
                else:
                    return False, "%s: pure operation disturbed the tensor in slot %d (%s): %s" % (
                        what, ch["slot"], role, ",".join(kinds))
            for ac in st["args_changed"]:
                return False, "%s: argument array '%s' was modified (%s)" % (what, ac["label"], ac["what"])
            if st.get("returned_operand"):
                return False, "%s: the operation returned one of the live tensor objects itself instead of a new tensor" % what
        return True, ""

    def nontrivial(self, case, res):
        return bool(res.get("ok")) and res.get("executed", 0) > 0

    def signature(self, case):
        return "%s;%s" % (case["tags"]["formats"], ",".join("%s:%d:%d:%d" % (h["op"], h["a"], h["b"], h["seed"]) for h in case["history"]))

    def coq_term(self, case, res):
        tr = res.get("trace") if res.get("ok") else None
        if not tr:
            return None
        if any("broken" in st for st in tr):
            return "[St KHarness 1 [W 1 0] [] []]"          # the tracer itself failed: make the comparison fail loudly
        out = []; size = 0
        for st in tr:                                       # a prefix of a trace is a trace: stay below the term size cap
            t = coq_step(st)
            if size + len(t) > 19000:
                self.totals["traces_truncated"] = self.totals.get("traces_truncated", 0) + 1
                break
            out.append(t); size += len(t) + 1
        self.totals["trace_steps_checked_in_coq"] = self.totals.get("trace_steps_checked_in_coq", 0) + len(out)
        return "[" + ";\n".join(out) + "]"

    def shrink(self, case, fails):
        """drop steps (from the end first) while the history still fails"""
        cur = json.loads(json.dumps(case))
        budget = 60
        changed = True
        while changed and budget > 0:
            changed = False
            for i in range(len(cur["history"]) - 1, -1, -1):
                if budget <= 0 or len(cur["history"]) <= 1:
                    break
                trial = json.loads(json.dumps(cur)); del trial["history"][i]
                budget -= 1
                if fails(trial):
                    cur = trial; changed = True
        cur["tags"]["nsteps"] = len(cur["history"]); cur["tags"]["shrunk"] = True
        return cur

    def extra(self, tier, rng):
        return {"problems": [], "violations": [],
                "coverage": {"operations": len(OPS), "operation_outcomes": self.stats, "history_totals": self.totals}}
