(* C03 -- indexing a compressed tensor equals indexing the dense array.  Statements only.
   Model: Model/GetItem.v (the left-to-right state machine of Tensor.__getitem__: pending factor of the
   integer-indexed modes, emitted cores, fused index-array runs, final flush).  Keys are the entries left
   after _process_key (Ellipsis expanded, trailing modes filled, negative integers normalised). *)
From TN Require Import Proofs.GetItemP Alg.Inst.

Section C03.
Variable K : Ops.
Hypothesis Kth : laws K.

(* integers, slices/selections and one (or more) runs of index arrays, any interleaving: the result
   network at index idx' equals the source at the merged index, for every terminal vector and row *)
Theorem C03_getitem : forall (cs : list (score K)) (key : list kent) idx' v p r,
  getitem cs key = Some r -> length idx' = nres key ->
  match r with
  | RNet res => evalv res idx' v p = evalv cs (merge key idx') v p
  | RScalar x => True
  end.
Proof. exact (getitem_sound K Kth). Qed.

(* every mode indexed by an integer: the plain scalar is the entry *)
Theorem C03_scalar : forall (cs : list (score K)) (key : list kent) x, cs <> [] ->
  getitem cs key = Some (RScalar x) -> nres key = O -> x = eval cs (merge key []).
Proof. exact (getitem_scalar K Kth). Qed.

(* None: an identity core on a dummy index leaves every entry unchanged *)
Theorem C03_none : forall pre r0 (cs : list (score K)) idxp i idx v p,
  length idxp = length pre -> (p < r0)%nat -> chain r0 pre = true ->
  evalv (pre ++ idcore (last_rr r0 pre) :: cs) (idxp ++ i :: idx) v p = evalv (pre ++ cs) (idxp ++ idx) v p.
Proof. exact (L8 K Kth). Qed.

(* the fused core of an index-array run selects zipped entries *)
Theorem C03_run : forall P (cs : list (score K)) ls F a w p, fuse P cs ls = Some F ->
  evalv [F] [a] w p = evalv cs (map (fun l => l a) ls) w p /\ length ls = length cs.
Proof. exact (fuse_sound K Kth). Qed.
End C03.

Print Assumptions C03_getitem.
Print Assumptions C03_scalar.
Print Assumptions C03_none.
Print Assumptions C03_run.
