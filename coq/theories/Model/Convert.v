(* Format conversions of tensor.py: decompress_tucker_factors, _cp_to_tt (including the
   zero-buffer / reshape / permute trick that turns a CP factor into a diagonal TT core),
   tt(), tools.transpose, clone.  Concrete formats; no proofs in this file. *)
From TN Require Export Model.Format.

Section Convert.
Variable K : Ops.
Local Open Scope K_scope.

(* einsum("ijk,aj->iak") / einsum("jk,aj->ak") *)
Definition absorb (m : mode K) : cdata K :=
  match fac m with
  | None => core m
  | Some (di, s, U) =>
      match core m with
      | CTT a _ b g => CTT a di b (fun p i q => sumn s (fun j => U i j * g p j q))
      | CCP _ r g => CCP di r (fun i k => sumn s (fun j => U i j * g j k))
      end
  end.
Definition decompress_mode (m : mode K) : mode K := mkMode (absorb m) None.
Definition decompress (t : tensor K) : tensor K := map decompress_mode t.
(* dim = subset of modes: sel[n] says whether mode n is absorbed *)
Fixpoint decompress_sel (sel : list bool) (t : tensor K) : tensor K :=
  match sel, t with
  | b :: sel', m :: t' => (if b then decompress_mode m else m) :: decompress_sel sel' t'
  | _, _ => t
  end.

(* _cp_to_tt(factor): core = zeros(R, R+1, s); core[:, 0, :] = factor^T;
   core.reshape(R+1, R, s).permute(0, 2, 1)[:-1]  -- read through the flat buffer *)
Definition cp_buf (s r : nat) (g : nat -> nat -> K) (k : nat) : K :=
  if Nat.eqb ((k / s) mod (r + 1)) 0 then g (k mod s)%nat (k / ((r + 1) * s))%nat else 0.
Definition cp_to_tt_core (c : cdata K) : cdata K :=
  match c with
  | CCP s r g => CTT r s r (fun a i b => cp_buf s r g ((a * r + b) * s + i)%nat)
  | c => c
  end.
(* whole-tensor form: first core [None, ...], last core transpose(-1,-2)[..., None] *)
Definition cp_first (c : cdata K) : cdata K :=
  match c with CCP s r g => CTT 1 s r (fun _ i b => g i b) | c => c end.
Definition cp_last (c : cdata K) : cdata K :=
  match c with CCP s r g => CTT r s 1 (fun a i _ => g i a) | c => c end.
(* a tensor with a single CP factor: both bonds close, the rank index is summed out *)
Definition cp_single (c : cdata K) : cdata K :=
  match c with CCP s r g => CTT 1 s 1 (fun _ i _ => sumn r (fun k => g i k)) | c => c end.
Definition on_core (f : cdata K -> cdata K) (m : mode K) : mode K := mkMode (f (core m)) (fac m).

Fixpoint cp_to_tt_tail (t : tensor K) : tensor K :=
  match t with
  | [] => []
  | [m] => [on_core cp_last m]
  | m :: t' => on_core cp_to_tt_core m :: cp_to_tt_tail t'
  end.
Definition cp_to_tt (t : tensor K) : tensor K :=
  match t with
  | [] => []
  | [m] => [on_core cp_single m]
  | m :: t' => on_core cp_first m :: cp_to_tt_tail t'
  end.

Definition tt (t : tensor K) : tensor K := cp_to_tt (decompress t).

(* tools.transpose: reversed order, TT cores permuted (2,1,0), CP cores and factors kept *)
Definition transp_core (c : cdata K) : cdata K :=
  match c with CTT a s b g => CTT b s a (fun p i q => g q i p) | c => c end.
Definition transpose (t : tensor K) : tensor K := rev (map (on_core transp_core) t).

Definition clone (t : tensor K) : tensor K := t.

End Convert.
Arguments absorb {K}. Arguments decompress_mode {K}. Arguments decompress {K}. Arguments decompress_sel {K}.
Arguments cp_buf {K}. Arguments cp_to_tt_core {K}. Arguments cp_first {K}. Arguments cp_last {K}. Arguments cp_single {K}.
Arguments on_core {K}. Arguments cp_to_tt_tail {K}. Arguments cp_to_tt {K}. Arguments tt {K}.
Arguments transp_core {K}. Arguments transpose {K}. Arguments clone {K}.
