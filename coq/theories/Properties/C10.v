(* C10 -- ANOVA decomposition.  Statements only.  Model: Model/Anova.v (anova_decomposition applies to every
   mode the matrix [w ; I - 1 w^T]; undo adds row 0 back). *)
From TN Require Import Proofs.AnovaP Alg.Inst Harness.HBase.

Section C10.
Variable K : Ops.
Hypothesis Kth : laws K.
Local Open Scope K_scope.

(* the extended tensor: its entry at j is the dense function transformed, mode by mode, by row j_n of
   amat w_n: row 0 = expectation under the marginal, row i+1 = evaluation at i minus the expectation,
   i.e. the ANOVA term of S = {n : j_n > 0} at x_n = j_n - 1 *)
Theorem C10_extended : forall ws (cs : list (score K)) idx, cs <> [] -> length ws = length cs ->
  length idx = length cs ->
  eval (anova_net ws cs) idx = dlin (map amat ws) (sshape cs) (eval cs) idx.
Proof. exact (anova_extended K Kth). Qed.

(* selecting all terms and undoing returns the original tensor (no condition on the marginals) *)
Theorem C10_undo : forall ws (cs : list (score K)) idx, length ws = length cs ->
  chain (match cs with c :: _ => rl c | [] => O end) cs = true -> in_range (sshape cs) idx = true ->
  eval (undo_net (anova_net ws cs)) idx = eval cs idx.
Proof. exact (undo_anova K Kth). Qed.

(* centring: under a marginal that sums to 1 the non-empty rows average to zero, so every term has zero
   mean along each of its variables; and row 0 is the mean *)
Theorem C10_centred : forall (w : nat -> K) n k, sumn n w = 1 -> (k < n)%nat ->
  sumn n (fun i => w i * amat w (S i) k) = 0.
Proof. exact (amat_centred K Kth). Qed.

Theorem C10_reconstruct : forall (w : nat -> K) n i k, (i < n)%nat ->
  sumn (S n) (fun j => bmat i j * amat w j k) = delta i k.
Proof. exact (bmat_amat K Kth). Qed.
End C10.

Print Assumptions C10_extended.
Print Assumptions C10_undo.
Print Assumptions C10_centred.
Print Assumptions C10_reconstruct.
