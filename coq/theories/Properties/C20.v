(* C20 -- finite-difference calculus on compressed tensors matches the dense stencil.  Statements only.
   Model: Model/Deriv.v (one linear map on the differentiated mode). *)
From TN Require Import Proofs.DerivP Proofs.ArithP Proofs.SumNetsP Proofs.DerivSumP Alg.Inst.
From TN Require Import Alg.InstR Proofs.GenInst Proofs.GenDerivP Proofs.GenDerivInst Gen.Generated.

Section C20.
Variable K : Ops.
Hypothesis Kth : laws K.
Local Open Scope K_scope.

(* partial derivative of order 1 along mode k: the stencil applied to the dense array along that mode,
   times 1/step, for every format of that mode (hinv = 1/step is a parameter: the step formula is read
   from the case) *)
Theorem C20_partial : forall k n hinv periodic (cs : list (score K)) c idx i,
  nth_error cs k = Some c -> nth_error idx k = Some i -> dm c = n ->
  eval (partial1_net k n hinv periodic cs) idx =
  hinv * sumn n (fun j => (if periodic then stencil_p n i j else stencil_np n i j) * eval cs (upd k idx j)).
Proof. exact (partial1_sound K Kth). Qed.

(* the non-periodic stencil: centred differences inside, linearly extrapolated ends *)
Theorem C20_stencil : forall n i (f : nat -> K), (3 <= n)%nat -> (i < n)%nat ->
  sumn n (fun j => stencil_np n i j * f j) =
  if Nat.eqb i 0 then two * f 1%nat - two * f O
  else if Nat.eqb i (n - 1) then two * f (n - 1)%nat - two * f (n - 2)%nat
  else f (i + 1)%nat - f (i - 1)%nat.
Proof. exact (stencil_np_apply K Kth). Qed.

Theorem C20_constants_annihilated : forall n i (c0 : K), (3 <= n)%nat -> (i < n)%nat ->
  sumn n (fun j => stencil_np n i j * c0) = 0.
Proof. exact (stencil_np_const K Kth). Qed.

Theorem C20_affine_to_constant : forall n i (a b : K), (3 <= n)%nat -> (i < n)%nat ->
  sumn n (fun j => stencil_np n i j * (a + b * of_nat j)) = two * b.
Proof. exact (stencil_np_affine K Kth). Qed.

(* laplacian(t) = sum([partial(t, n, order=2) ...]) and divergence(ts) = sum([partial(ts[n], n) ...]): Python's sum of
   well-formed, equally shaped tensors decompresses to the entrywise sum of the summands ... *)
Theorem C20_sum_of_partials : forall (l : list (list (score K))) (r : list (score K)) sh,
  Forall (fun x => good K x /\ sshape x = sh) l -> py_sum K l = Some r ->
  good K r /\ sshape r = sh /\ forall idx, in_range sh idx = true -> eval r idx = sum_evals K l idx.
Proof. exact (py_sum_sound K Kth). Qed.
(* ... and partial derivatives of any order are such summands: well-formed, shape unchanged *)
Theorem C20_partial_shape : forall (order k n : nat) hinv periodic (cs : list (score K)) c,
  nth_error cs k = Some c -> dm c = n -> good K cs ->
  good K (partial_net order k n hinv periodic cs) /\ sshape (partial_net order k n hinv periodic cs) = sshape cs /\
  exists c', nth_error (partial_net order k n hinv periodic cs) k = Some c' /\ dm c' = n.
Proof. exact (partial_good K). Qed.
End C20.

(* ---- divergence, curl and laplacian as the translator reads them from derivatives.py on this run (Gen/Generated.v,
   variant "bounds = one pair per mode"), instantiated with the kernel models over the reals.  [Dn sh d o h f] is the dense
   side: the non-periodic stencil of C20_partial / C20_stencil applied o times along mode d of the array f, each time
   multiplied by h = 1/step of mode d.  A change of derivatives.py that pairs a component, a mode or a mode's bounds
   differently changes the generated term and these statements stop type-checking or proving. ---- *)
Section C20_vector_calculus.
Variable sh : list nat.
Hypothesis sh_ne : sh <> [].
Notation net := (list (score RO)).
Notation okR := (okR sh).
Open Scope R_scope.

Theorem C20_curl : forall (t0 t1 t2 : net) (hinv : nat -> R), length sh = 3%nat -> okR t0 -> okR t1 -> okR t2 ->
  exists c0 c1 c2,
    gen_derivatives_curl_P net r_add r_smul (list net) s_nth (nat -> R) R (fun b n => b n) r_partial [t0; t1; t2] hinv
      = [c0; c1; c2] /\ okR c0 /\ okR c1 /\ okR c2 /\
  forall i, in_range sh i = true ->
    eval c0 i = Dn sh 1 1 (hinv 1%nat) (eval t2) i - Dn sh 2 1 (hinv 2%nat) (eval t1) i /\
    eval c1 i = Dn sh 2 1 (hinv 2%nat) (eval t0) i - Dn sh 0 1 (hinv 0%nat) (eval t2) i /\
    eval c2 i = Dn sh 0 1 (hinv 0%nat) (eval t1) i - Dn sh 1 1 (hinv 1%nat) (eval t0) i.
Proof. exact (curl_spec sh). Qed.

Theorem C20_laplacian : forall (t : net) (hinv : nat -> R), okR t ->
  let r := gen_derivatives_laplacian_P net (@length _) (nat -> R) R (fun b n => b n) r_partial r_pysum t hinv in
  okR r /\ forall i, in_range sh i = true ->
    eval r i = sum_upto (length sh) (fun n => Dn sh n 2 (hinv n) (eval t) i).
Proof. exact (laplacian_spec sh sh_ne). Qed.

Theorem C20_divergence : forall (ts : list net) (hinv : nat -> R), length ts = length sh -> Forall okR ts ->
  let r := gen_derivatives_divergence_P net (list net) s_nth (@length _) (nat -> R) R (fun b n => b n) r_partial r_pysum ts hinv in
  okR r /\ forall i, in_range sh i = true ->
    eval r i = sum_upto (length sh) (fun n => Dn sh n 1 (hinv n) (eval (s_nth ts n)) i).
Proof. exact (divergence_spec sh sh_ne). Qed.
(* gradient over an explicit list of modes (the list need not be sorted or a prefix).  bounds=None: component k is the
   first-order stencil along the k-th LISTED mode d, scaled by that mode's own default step, 1/step = (I_d + 1)/(2 I_d) *)
Theorem C20_gradient_default : forall (t : net) (dim : list nat), okR t -> Forall (fun d => (d < length sh)%nat) dim ->
  let g := gen_derivatives_gradient_N net R r_partial r_default t dim in
  length g = length dim /\
  forall k d, nth_error dim k = Some d ->
    exists c, nth_error g k = Some c /\ okR c /\
      forall i, in_range sh i = true -> eval c i = Dn sh d 1 ((INR (nth d sh O) + 1) / (2 * INR (nth d sh O))) (eval t) i.
Proof. exact (gradient_default_spec sh). Qed.

(* one bounds pair per listed mode: component k uses the k-th listed mode and the k-th pair *)
Theorem C20_gradient_bounds : forall (t : net) (dim : list nat) (hs : list R), okR t -> length hs = length dim ->
  Forall (fun d => (d < length sh)%nat) dim ->
  let g := gen_derivatives_gradient_B net R r_partial t dim hs in
  length g = length dim /\
  forall k d h, nth_error dim k = Some d -> nth_error hs k = Some h ->
    exists c, nth_error g k = Some c /\ okR c /\
      forall i, in_range sh i = true -> eval c i = Dn sh d 1 h (eval t) i.
Proof. exact (gradient_bounds_spec sh). Qed.
End C20_vector_calculus.

(* non-vacuity of the premises of the vector-calculus theorems: a concrete rank-1 field on a 3 x 3 x 3 grid *)
Definition ex_core20 (n : nat) : score RO := mkScore (K:=RO) 1 1 n (fun s _ _ => INR s).
Example C20_vector_calculus_nonvacuous :
  okR [3; 3; 3]%nat [ex_core20 3; ex_core20 3; ex_core20 3] /\ length [3; 3; 3]%nat = 3%nat /\
  Forall (fun d => (d < length [3; 3; 3]%nat)%nat) [2; 0]%nat.
Proof. split; [split; [split; [discriminate|reflexivity]|reflexivity]|split; [reflexivity|repeat constructor]]. Qed.

Print Assumptions C20_partial.
Print Assumptions C20_curl.
Print Assumptions C20_laplacian.
Print Assumptions C20_divergence.
Print Assumptions C20_gradient_default.
Print Assumptions C20_gradient_bounds.
Print Assumptions C20_stencil.
Print Assumptions C20_constants_annihilated.
Print Assumptions C20_affine_to_constant.
Print Assumptions C20_sum_of_partials.
Print Assumptions C20_partial_shape.
