(* metrics.hadamard_sum([t_1, ..., t_M]) = sum over all entries of the entrywise product.
   Model: the entrywise products are taken with the kernel model of `*` (Model/Arith.mul_net), the final sum with the
   kernel model of the inner product (Model/Dot.dot_net); the implementation contracts diagonalised cores instead -
   the two are tied by the C06 correspondence (algorithm='exact', exact over Z).  No proofs in this file. *)
From TN Require Export Model.Arith Model.Dot.
Section Hsum.
Variable K : Ops.
Notation net := (list (score K)).
(* ((t_1 * t_2) * ...) * t_{M-1}, then <. , t_M>; a single tensor is paired with itself-shaped ones via t * 1 = dot(t, ones) *)
Fixpoint mul_all (acc : net) (l : list net) : option net :=
  match l with [] => Some acc | x :: l' => match mul_net acc x with Some a => mul_all a l' | None => None end end.
Definition ones_like (a : net) : net := const_net (r1 K) (sshape a).
Definition hsum_net (l : list net) : option K :=
  match l with
  | [] => None
  | x :: l' => match mul_all x l' with Some p => Some (dot_net p (ones_like p)) | None => None end
  end.
Fixpoint prod_evals (l : list net) (idx : list nat) : K :=
  match l with [] => r1 K | x :: l' => rmul K (eval x idx) (prod_evals l' idx) end.
End Hsum.
Arguments mul_all {K}. Arguments hsum_net {K}. Arguments prod_evals {K}. Arguments ones_like {K}.
