(* accepted_inputs: every index with a non-zero entry, repeated as many times as its value, in
   lexicographic order -- for tensors all of whose entries are non-negative integers. *)
From TN Require Export Sem.Moves Model.Automata Alg.Inst.
Local Open Scope Z_scope.

Notation sumz := (sumn (K:=ZO)).

Lemma sumz_nonneg n f : (forall i, (i < n)%nat -> 0 <= f i) -> 0 <= sumz n f.
Proof. induction n; intros H; cbn; [lia|]. assert (0 <= sumz n f) by (apply IHn; intros; apply H; lia).
  specialize (H n ltac:(lia)). lia. Qed.

Lemma sumz_zero_each n f : (forall i, (i < n)%nat -> 0 <= f i) -> sumz n f = 0 ->
  forall i, (i < n)%nat -> f i = 0.
Proof.
  induction n; intros H E i Hi; [lia|]. cbn in E.
  assert (0 <= sumz n f) by (apply sumz_nonneg; intros; apply H; lia).
  assert (0 <= f n) by (apply H; lia).
  destruct (Nat.eq_dec i n); [subst; lia|]. apply IHn; try lia. intros; apply H; lia.
Qed.

(* value of a completion [idx] of the current prefix *)
Definition val (cs : list ZS) (r : nat) (left : nat -> Z) (idx : list nat) : Z :=
  dotv r left (evalv (K:=ZO) cs idx ones).

Definition spec (cs : list ZS) (r : nat) (left : nat -> Z) : list (list nat) :=
  flat_map (fun idx => repeat idx (Z.to_nat (val cs r left idx))) (all_idx (sshape cs)).

Lemma val_cons c cs r left i idx : rl c = r ->
  val (c :: cs) r left (i :: idx) = val cs (rr c) (vm (rl c) left (sl c i)) idx.
Proof.
  intros E. unfold val, dotv, vm. subst r. cbn [evalv].
  rewrite (sumn_ext (K:=ZO) (rl c) _ (fun p => sumz (rr c) (fun q => left p * sl c i p q * evalv (K:=ZO) cs idx ones q))).
  2:{ intros p _. change (left p * sumz (rr c) (fun q => (sl c i p q * evalv (K:=ZO) cs idx ones q)%Z) =
        sumz (rr c) (fun q => left p * sl c i p q * evalv (K:=ZO) cs idx ones q)).
      rewrite <- (sumn_mul_l (K:=ZO) ZO_laws). apply (sumn_ext (K:=ZO)). intros q _. cbn. ring. }
  rewrite (sumn_exch (K:=ZO) ZO_laws). apply (sumn_ext (K:=ZO)). intros q _.
  change (sumz (rl c) (fun p => left p * sl c i p q * evalv (K:=ZO) cs idx ones q) =
          sumz (rl c) (fun p => left p * sl c i p q) * evalv (K:=ZO) cs idx ones q).
  rewrite <- (sumn_mul_r (K:=ZO) ZO_laws). reflexivity.
Qed.

(* the chain of summed cores counts all completions *)
Lemma rights_sum (cs : list ZS) : forall r p, chain r cs = true ->
  rights cs p = sumidx (K:=ZO) (sshape cs) (fun idx => evalv (K:=ZO) cs idx ones p).
Proof.
  induction cs as [|c cs IH]; intros r p Hc; [reflexivity|].
  cbn [chain] in Hc. apply andb_true_iff in Hc. destruct Hc as [_ Hc].
  cbn [rights sshape map sumidx evalv].
  rewrite (sumn_ext (K:=ZO) (rr c) _ (fun q => sumz (dm c) (fun i => sl c i p q * sumidx (K:=ZO) (sshape cs) (fun idx => evalv (K:=ZO) cs idx ones q)))).
  2:{ intros q _. rewrite (IH (rr c)) by assumption.
      symmetry. apply (sumn_mul_r (K:=ZO) ZO_laws). }
  rewrite (sumn_exch (K:=ZO) ZO_laws). apply (sumn_ext (K:=ZO)). intros i _.
  rewrite (sumidx_sumn (K:=ZO) ZO_laws). apply (sumn_ext (K:=ZO)). intros q _.
  symmetry. apply (sumidx_mul_l (K:=ZO) ZO_laws).
Qed.

Lemma sumidx_all_zero sh (f : list nat -> Z) :
  (forall idx, In idx (all_idx sh) -> 0 <= f idx) -> sumidx (K:=ZO) sh f = 0 ->
  forall idx, In idx (all_idx sh) -> f idx = 0.
Proof.
  revert f. induction sh as [|d sh IH]; intros f H E idx Hin.
  - cbn in *. destruct Hin as [<-|[]]. exact E.
  - cbn [all_idx sumidx] in *. apply in_flat_map in Hin. destruct Hin as (i & Hi & Hin).
    apply in_seq in Hi. apply in_map_iff in Hin. destruct Hin as (idx' & <- & Hin').
    assert (Hnn: forall j, (j < d)%nat -> 0 <= sumidx (K:=ZO) sh (fun x => f (j :: x))).
    { intros j Hj. clear - H Hj. 
      assert (G: forall sh' (g : list nat -> Z), (forall x, In x (all_idx sh') -> 0 <= g x) -> 0 <= sumidx (K:=ZO) sh' g).
      { induction sh' as [|e sh' IH']; intros g Hg; cbn [sumidx].
        - apply Hg. left; auto.
        - apply sumz_nonneg. intros k Hk. apply IH'. intros x Hx. apply Hg.
          cbn [all_idx]. apply in_flat_map. exists k. split; [apply in_seq; lia|apply in_map; auto]. }
      apply G. intros x Hx. apply H. apply in_flat_map. exists j. split; [apply in_seq; lia|apply in_map; auto]. }
    assert (Ez := sumz_zero_each d _ Hnn E i ltac:(lia)).
    apply (IH (fun x => f (i :: x))); auto.
    intros x Hx. apply H. apply in_flat_map. exists i. split; [apply in_seq; lia|apply in_map; auto].
Qed.

Lemma flat_map_nil {A B} (f : A -> list B) l : (forall x, In x l -> f x = []) -> flat_map f l = [].
Proof. induction l; simpl; intros H; auto. rewrite H by (left; auto). apply IHl. intros; apply H; right; auto. Qed.

Lemma flat_map_ext_in {A B} (f g : A -> list B) l : (forall x, In x l -> f x = g x) -> flat_map f l = flat_map g l.
Proof. induction l; simpl; intros H; auto. rewrite H by (left; auto). f_equal. apply IHl. intros; apply H; right; auto. Qed.

Lemma map_flat_map {A B C} (h : B -> C) (f : A -> list B) l : map h (flat_map f l) = flat_map (fun x => map h (f x)) l.
Proof. induction l; simpl; auto. rewrite map_app, IHl. reflexivity. Qed.

Lemma flat_map_map {A B C} (f : B -> list C) (g : A -> B) l : flat_map f (map g l) = flat_map (fun x => f (g x)) l.
Proof. induction l; simpl; auto. rewrite IHl. reflexivity. Qed.

Lemma map_repeat {A B} (h : A -> B) x n : map h (repeat x n) = repeat (h x) n.
Proof. induction n; simpl; auto. rewrite IHn. reflexivity. Qed.

Lemma flat_map_flat_map {A B C} (f : B -> list C) (g : A -> list B) l :
  flat_map f (flat_map g l) = flat_map (fun x => flat_map f (g x)) l.
Proof. induction l; simpl; auto. rewrite flat_map_app, IHl. reflexivity. Qed.

Theorem acc_sound (cs : list ZS) : forall r left, chain r cs = true ->
  (forall idx, In idx (all_idx (sshape cs)) -> 0 <= val cs r left idx) ->
  acc cs r left = spec cs r left.
Proof.
  induction cs as [|c cs IH]; intros r left Hc Hnn.
  - unfold spec, val. cbn. rewrite app_nil_r. reflexivity.
  - cbn [chain] in Hc. apply andb_true_iff in Hc. destruct Hc as [Er Hc]. apply Nat.eqb_eq in Er.
    unfold spec. cbn [acc sshape map all_idx]. rewrite flat_map_flat_map.
    apply flat_map_ext_in. intros i Hi. apply in_seq in Hi.
    rewrite flat_map_map.
    set (left' := vm (rl c) left (sl c i)).
    assert (Hv: forall idx, val (c :: cs) r left (i :: idx) = val cs (rr c) left' idx).
    { intros idx. apply val_cons; auto. }
    assert (Hnn': forall idx, In idx (all_idx (sshape cs)) -> 0 <= val cs (rr c) left' idx).
    { intros idx Hin. rewrite <- Hv. apply Hnn. cbn [sshape map all_idx]. apply in_flat_map.
      exists i. split; [apply in_seq; lia|apply in_map; auto]. }
    assert (Htot: dotv (rr c) left' (rights cs) = sumidx (K:=ZO) (sshape cs) (fun idx => val cs (rr c) left' idx)).
    { unfold dotv, val, dotv.
      rewrite (sumn_ext (K:=ZO) (rr c) _ (fun q => sumidx (K:=ZO) (sshape cs) (fun idx => left' q * evalv (K:=ZO) cs idx ones q))).
      2:{ intros q _. rewrite (rights_sum cs (rr c)) by assumption. symmetry. apply (sumidx_mul_l (K:=ZO) ZO_laws). }
      symmetry. apply (sumidx_sumn (K:=ZO) ZO_laws). }
    destruct (Z.eqb_spec (dotv (rr c) left' (rights cs)) 0) as [E0|E0].
    + symmetry. apply flat_map_nil. intros idx Hin. rewrite Hv.
      rewrite Htot in E0. rewrite (sumidx_all_zero _ _ Hnn' E0 idx Hin). reflexivity.
    + rewrite (IH (rr c) left' Hc Hnn'). unfold spec. rewrite map_flat_map.
      apply flat_map_ext_in. intros idx Hin. rewrite map_repeat, Hv. reflexivity.
Qed.

Theorem accepted_inputs_sound (cs : list ZS) : cs <> [] ->
  chain (match cs with c :: _ => rl c | [] => O end) cs = true ->
  (match cs with c :: _ => rl c | [] => O end) = 1%nat ->
  (forall idx, In idx (all_idx (sshape cs)) -> 0 <= eval (K:=ZO) cs idx) ->
  accepted_inputs cs =
  flat_map (fun idx => repeat idx (Z.to_nat (eval (K:=ZO) cs idx))) (all_idx (sshape cs)).
Proof.
  intros Hne Hc H1 Hnn. destruct cs as [|c cs]; [congruence|]. unfold accepted_inputs.
  assert (Hv: forall idx, val (c :: cs) (rl c) (fun _ => 1) idx = eval (K:=ZO) (c :: cs) idx).
  { intros idx. unfold val, dotv, eval. apply (sumn_ext (K:=ZO)). intros p _.
    change (1 * evalv (K:=ZO) (c :: cs) idx ones p = evalv (K:=ZO) (c :: cs) idx ones p). apply Z.mul_1_l. }
  rewrite acc_sound; auto.
  - unfold spec. apply flat_map_ext_in. intros idx _. rewrite Hv. reflexivity.
  - intros idx Hin. rewrite Hv. auto.
Qed.
