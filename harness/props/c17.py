"""C17: maximum-volume row selection (tntorch/maxvol.py) - post-conditions of py_maxvol / py_rect_maxvol.

The specification is relational (a post-condition on (idx, C) given A and the arguments), so `expected` returns the
normalised parameters and the facts about A the post-condition needs (tallness, column rank, LU start volume), and
`agree` evaluates the post-condition on the implementation's output with dense NumPy."""
from lib import *
import io, contextlib
import scipy.linalg

SQ_DEFAULTS = {"tol": 1.05, "max_iters": 100, "top_k_index": -1}
RECT_DEFAULTS = {"tol": 1.0, "maxK": None, "min_add_K": None, "minK": None, "start_maxvol_iters": 10,
                 "identity_submatrix": True, "top_k_index": -1}

KINDS_M = ["gauss", "int", "orth", "dup", "tiny", "eyestack", "scaled", "vander", "sparse"]


def _routines():
    import tntorch.maxvol as mv
    out = {"py_maxvol": mv.py_maxvol, "py_rect_maxvol": mv.py_rect_maxvol}
    # public wrappers (maxvolpy naming); the pinned tree only ships the py_* functions
    if hasattr(mv, "maxvol"):
        out["maxvol"] = mv.maxvol
    if hasattr(mv, "rect_maxvol"):
        out["rect_maxvol"] = mv.rect_maxvol
    return out


def make_matrix(rng, n, r, kind):
    """a matrix of the class `kind` as nested lists (floats or small ints); numpy randomness seeded from rng"""
    g = np.random.RandomState(rng.randrange(2 ** 31))
    A = g.standard_normal((n, r))
    if kind == "int":
        A = g.randint(-3, 4, size=(n, r)).astype(float)
    elif kind == "orth":
        if n >= r:   # as produced by QR inside cross (torch.linalg.qr, reduced)
            A = torch.linalg.qr(torch.tensor(A))[0].numpy().copy()
    elif kind == "dup":
        if n > 2:
            for _ in range(rng.randint(1, 3)):
                A[rng.randrange(n)] = A[rng.randrange(n)]
    elif kind == "tiny":
        for _ in range(rng.randint(1, 2)):
            A[rng.randrange(n)] *= 10.0 ** (-rng.choice([8, 12, 30]))
    elif kind == "eyestack":   # rows of the identity, repeated and signed: |C| entries are exactly 0/1 (ties everywhere)
        A = np.zeros((n, r))
        for i in range(n):
            A[i, i % r if i < r or rng.random() < 0.5 else rng.randrange(r)] = rng.choice([1.0, -1.0, 2.0])
        p = list(range(n)); rng.shuffle(p); A = A[p]
    elif kind == "scaled":
        A = A * 10.0 ** rng.choice([-6, 5, 9])
        A[:, rng.randrange(r)] *= 10.0 ** rng.choice([-3, 0, 3])
    elif kind == "vander":     # ill-conditioned columns
        x = np.sort(g.uniform(-1, 1, n))
        A = np.vander(x, r, increasing=True)
    elif kind == "sparse":
        A = A * (g.uniform(size=(n, r)) < 0.4)
    return A.tolist()


def rect_norm(n, r, args):
    """documented normalisation of maxK / minK / min_add_K (n > r)"""
    a = dict(RECT_DEFAULTS); a.update(args)
    maxK = a["maxK"]
    if maxK is None or maxK > n:
        maxK = n
    maxK = max(maxK, r)
    minK = a["minK"]
    if minK is None or minK < r:
        minK = r
    minK = min(minK, n)
    if a["min_add_K"] is not None:
        minK = max(minK, r + a["min_add_K"])
    minK = min(minK, maxK)
    return maxK, minK


class Prop:
    ID = "C17"
    LEVEL = "exploration"
    COQ_HEADER = ""
    CHECK_FN = ""
    RULE = ("matrices n x r with r in 1..10 and n in {1, r-1, r, r+1, r+2, 2r, 3r+1, 30, 60} (thorough: every n in 1..60), of 9 "
            "classes (Gaussian, small-integer, orthonormal columns from torch.linalg.qr as inside cross, duplicated rows, "
            "tiny rows, signed rows of the identity (ties), badly scaled, Vandermonde, sparse), C- and F-ordered; square routine "
            "with tol in {default 1.05, 1, 2, 0.5, 1.5}, max_iters in {default 100, 0, 1, 2, 5}, top_k_index; rectangular routine "
            "with tol in {default 1, 1.05, 2, 0.5, 1.2}, maxK (None, <r, r.., n, >n), minK, min_add_K, start_maxvol_iters, "
            "identity_submatrix, plus the two call patterns used by cross (maxvol(Q), rect_maxvol(Q, maxK=r)). Arguments that "
            "are not listed in a case are left to the routine's defaults. A case is non-trivial when the matrix is tall with full "
            "column rank and the routine returned; distinct = distinct (routine, class, n, r, arguments passed).")
    TRUSTED = ["post-conditions are evaluated by harness/props/c17.py with NumPy float64 (row/column-scaled backward-error tolerance "
               "1e-7 for C A[idx] = A, 1e-7 + 1e-14 cond(A[idx]) for C[idx] = I, 1e-6 relative for the dominance / row-norm bounds)",
               "whether the iteration cap may have been hit is decided from volumes: k swaps multiply |det A[idx]| by more than "
               "tol^k, with the start volume taken from scipy.linalg.lu_factor (same LAPACK getrf as the implementation)",
               "numerical column rank by numpy.linalg.matrix_rank"]
    ASSUMPTIONS = ["the post-conditions are read with respect to the matrix as passed by the caller: a routine that overwrites its "
                   "input is reported (cross keeps using Q after the call)",
                   "matrices that are tall but numerically rank-deficient are outside the property's premise and only checked "
                   "for not being reported as a success with wrong shapes",
                   "top_k_index is not mentioned by the property text; for those cases dominance / norm bounds are required on "
                   "the first top_k_index rows only and chosen rows must lie among them",
                   "the lower bound K >= min(max(minK, r + min_add_K), maxK, n) is the documented meaning of minK / min_add_K"]
    THEOREMS = []

    # ------------------------------------------------------------------ generation
    def generate(self, rng, tier):
        quick = tier == "quick"
        cases = []
        names = sorted(_routines())

        def mk(A, routine, args, kind, order="C", pattern="direct"):
            n = len(A); r = len(A[0])
            tags = {"routine": routine, "kind": kind, "n": n, "r": r, "tall": n > r, "order": order, "pattern": pattern,
                    "args": ",".join(sorted(args)) or "defaults"}
            for k, v in args.items():
                tags["arg_" + k] = v if isinstance(v, (int, bool, str)) else str(v)
            if "rect" in routine and n > r:
                maxK, minK = rect_norm(n, r, args)
                nz = sum(1 for row in A if any(x != 0 for x in row))
                # two input classes on which the pinned tree violates the property (see known findings)
                tags["rect_r1_adds"] = bool(r == 1 and maxK >= 3)
                tags["forced_into_zero_rows"] = bool(nz < n and minK > nz)
            cases.append({"A": A, "routine": routine, "args": args, "order": order, "tags": tags})

        def sq_args(n, r):
            a = {}
            if rng.random() < 0.5:
                a["tol"] = rng.choice([1.0, 2.0, 0.5, 1.5, 1.05])
            if rng.random() < 0.4:
                a["max_iters"] = rng.choice([0, 1, 2, 5, 100])
            if rng.random() < 0.12 and n > r:
                a["top_k_index"] = rng.choice([r - 1, r, r + 1, (n + r) // 2, n, n + 4])
            return a

        def rect_args(n, r):
            a = {}
            if rng.random() < 0.5:
                a["tol"] = rng.choice([1.05, 2.0, 0.5, 1.2, 1.0])
            if rng.random() < 0.6:
                a["maxK"] = rng.choice([r - 1, r, r + 1, r + 2, r + 5, max(r, n - 1), n, n + 3])
            if rng.random() < 0.3:
                a["minK"] = rng.choice([1, r, r + 1, r + 3, n, n + 5])
            if rng.random() < 0.2:
                a["min_add_K"] = rng.choice([0, 1, 3, n])
            if rng.random() < 0.15:
                a["start_maxvol_iters"] = rng.choice([0, 1, 10])
            if rng.random() < 0.2:
                a["identity_submatrix"] = rng.choice([True, False])
            if rng.random() < 0.06 and n > r and "minK" not in a and "min_add_K" not in a:
                a["top_k_index"] = rng.choice([r, r + 1, (n + r) // 2, n + 4])
            return a

        def ns_for(r):
            if quick:
                return sorted(set(x for x in [1, r - 1, r, r + 1, r + 2, 2 * r, 3 * r + 1, 30, 60] if 1 <= x <= 60))
            return list(range(1, 61))

        reps = 3 if quick else 4
        for r in range(1, 11):
            for n in ns_for(r):
                for kind in KINDS_M:
                    if not quick and n > r + 3 and rng.random() < 0.5:
                        continue
                    for _ in range(reps):
                        A = make_matrix(rng, n, r, kind)
                        order = "F" if rng.random() < 0.2 else "C"
                        for routine in names:
                            sq = routine.endswith("maxvol") and "rect" not in routine
                            mk(A, routine, sq_args(n, r) if sq else rect_args(n, r), kind, order)
        # the call patterns of cross: maxvol(Q) and rect_maxvol(Q, maxK=Q.shape[1]) on QR factors of fibre samples,
        # including rank-deficient samples (QR then completes the basis) and pure default calls
        for _ in range(400 if quick else 3000):
            r = rng.randint(1, 10); I = rng.randint(2, 6); n = min(60, r * I) if rng.random() < 0.7 else rng.randint(r + 1, 60)
            if n <= r:
                n = r + 1
            g = np.random.RandomState(rng.randrange(2 ** 31))
            V = g.standard_normal((n, r))
            if rng.random() < 0.4 and r > 1:   # sampled target of lower rank than the bond
                k = rng.randint(1, r - 1)
                V = g.standard_normal((n, k)) @ g.standard_normal((k, r))
            Q = torch.linalg.qr(torch.tensor(V))[0].numpy()
            A = Q.tolist()
            mk(A, "py_maxvol", {}, "crossQ", pattern="cross")
            mk(A, "py_rect_maxvol", {"maxK": r}, "crossQ", pattern="cross")
        # default-argument calls on every class (a changed default must be seen)
        for kind in KINDS_M:
            for _ in range(15 if quick else 80):
                r = rng.randint(1, 10); n = rng.randint(r + 1, 60)
                A = make_matrix(rng, n, r, kind)
                for routine in names:
                    mk(A, routine, {}, kind)
        return cases

    # ------------------------------------------------------------------ implementation
    def run(self, case):
        try:
            f = _routines()[case["routine"]]
            A = np.array(case["A"], dtype=np.float64)
            if A.ndim != 2:
                A = A.reshape(len(case["A"]), -1)
            A = np.asfortranarray(A) if case.get("order") == "F" else np.ascontiguousarray(A)
            A0 = A.copy()
            with contextlib.redirect_stdout(io.StringIO()):
                idx, C = f(A, **case["args"])
            idx = np.asarray(idx); C = np.asarray(C)
            return {"ok": True, "idx": [int(i) for i in idx.reshape(-1)], "idx_ndim": int(idx.ndim),
                    "C": np.asarray(C, dtype=np.float64).tolist() if C.ndim == 2 else None, "C_shape": list(C.shape),
                    "input_unchanged": bool(np.array_equal(A, A0))}
        except Exception as e:
            return {"ok": False, "err": type(e).__name__, "msg": str(e)[:200]}

    # ------------------------------------------------------------------ specification
    def expected(self, case):
        A = np.array(case["A"], dtype=np.float64)
        n, r = A.shape
        rect = "rect" in case["routine"]
        args = dict(RECT_DEFAULTS if rect else SQ_DEFAULTS); args.update(case["args"])
        exp = {"ok": True, "n": n, "r": r, "rect": rect, "tall": n > r}
        if n <= r:
            return exp
        exp["rank"] = int(np.linalg.matrix_rank(A))
        exp["premise"] = exp["rank"] == r
        topk = args["top_k_index"]
        if topk == -1 or topk > n:
            topk = n
        if topk < r:
            topk = r
        exp["topk"] = topk
        if exp["premise"] and topk < n:
            exp["premise"] = int(np.linalg.matrix_rank(A[:topk])) == r
        if rect:
            maxK, minK = rect_norm(n, r, case["args"])
            exp.update(maxK=maxK, minK=minK, tol=float(args["tol"]), identity=bool(args["identity_submatrix"]))
        else:
            tol = max(float(args["tol"]), 1.0)
            exp.update(tol=tol, max_iters=int(args["max_iters"]))
            if exp["premise"]:
                # volume of the LU (partial pivoting) start, the documented initial submatrix
                lu, piv = scipy.linalg.lu_factor(A[:topk])
                index = list(range(n))
                for i in range(r):
                    index[i], index[piv[i]] = index[piv[i]], index[i]
                s, ld = np.linalg.slogdet(A[index[:r]])
                exp["start_logdet"] = float(ld) if s != 0 else None
        return exp

    # ------------------------------------------------------------------ comparison
    def agree(self, case, res, exp):
        if not res.get("ok"):
            if exp["tall"] and not exp.get("premise", True):
                return True, "outside the premise (rank-deficient)"
            return False, "implementation raised %s: %s" % (res.get("err"), res.get("msg"))
        A = np.array(case["A"], dtype=np.float64)
        n, r = exp["n"], exp["r"]
        idx = res["idx"]
        if exp["tall"] and not exp["premise"]:
            return True, "outside the premise (rank-deficient)"
        if res["idx_ndim"] != 1:
            return False, "index array is not a vector"
        if any(i < 0 or i >= n for i in idx):
            return False, "row index out of range: %s" % idx
        if len(set(idx)) != len(idx):
            return False, "row indices are not distinct: %s" % idx
        if not res.get("input_unchanged", True):
            return False, "the routine modified the caller's matrix A (the post-conditions refer to A as passed)"
        K = len(idx)
        if res["C"] is not None and not np.all(np.isfinite(np.array(res["C"], dtype=np.float64))):
            return False, "non-finite coefficients"
        if not exp["tall"]:
            if sorted(idx) != list(range(n)):
                return False, "not-tall matrix: rows %s returned instead of all %d rows" % (idx, n)
            if res["C"] is None or res["C_shape"] != [n, n]:
                return False, "not-tall matrix: coefficient shape %s, expected %s" % (res["C_shape"], [n, n])
            C = np.array(res["C"])
            if not close(C @ A[idx], A, 1e-9):
                return False, "not-tall matrix: C A[idx] != A"
            return True, ""
        if res["C"] is None or res["C_shape"] != [n, K]:
            return False, "coefficient shape %s, expected %s" % (res["C_shape"], [n, K])
        C = np.array(res["C"])
        if not np.all(np.isfinite(C)):
            return False, "non-finite coefficients"
        topk = exp["topk"]
        if any(i >= topk for i in idx):
            return False, "row outside the first top_k_index=%d rows chosen: %s" % (topk, idx)
        sub = A[idx]
        if exp["rect"]:
            if not (r <= K <= exp["maxK"]):
                return False, "%d rows returned, must be between r=%d and maxK=%d" % (K, r, exp["maxK"])
            if K < exp["minK"]:
                return False, "%d rows returned, fewer than minK=%d" % (K, exp["minK"])
        else:
            if K != r:
                return False, "%d rows returned, expected r=%d" % (K, r)
        if np.linalg.matrix_rank(sub) != r:
            return False, "chosen submatrix is singular (rank %d < %d)" % (np.linalg.matrix_rank(sub), r)
        # C A[idx] = A, componentwise backward-error tolerance
        E = np.abs(C @ sub - A)
        bound = 1e-7 * (K * np.abs(C).max(axis=1)[:, None] * np.abs(sub).max(axis=0)[None, :] + np.abs(A)) + 1e-300
        if not np.all(E <= bound):
            w = np.unravel_index(np.argmax(E - bound), E.shape)
            return False, "C A[idx] != A: error %g at %s (|A| max %g)" % (E[w], w, np.abs(A).max())
        if not exp["rect"] or exp["identity"]:
            D = np.abs(C[idx] - np.eye(K)).max()
            if not (D <= 1e-7 + min(0.1, 1e-14 * np.linalg.cond(sub))):
                return False, "C[idx] differs from the identity by %g" % D
        if exp["rect"]:
            if K < exp["maxK"]:
                chosen = set(idx)
                un = [i for i in range(topk) if i not in chosen]
                if un:
                    nr = np.sqrt((C[un] ** 2).sum(axis=1))
                    if not (nr.max() <= exp["tol"] * (1 + 1e-6) + 1e-12):
                        return False, ("unchosen row %d of C has 2-norm %g > tol=%g although K=%d < maxK=%d" %
                                       (un[int(nr.argmax())], nr.max(), exp["tol"], K, exp["maxK"]))
        else:
            m = np.abs(C[:topk]).max()
            if not (m <= exp["tol"] * (1 + 1e-6)):
                # allowed only if the iteration cap was hit: max_iters swaps, each multiplying the volume by > tol
                s, ld = np.linalg.slogdet(sub)
                need = exp["max_iters"] * math.log(exp["tol"])
                if exp.get("start_logdet") is None:
                    return False, "max |C| = %g > tol = %g and the LU start is singular" % (m, exp["tol"])
                if not (ld - exp["start_logdet"] >= need - 1e-6 * max(1.0, abs(need))):
                    return False, ("max |C| = %g > tol = %g but the volume grew by exp(%g) < tol^max_iters = exp(%g): the "
                                   "iteration cap (%d) cannot have been hit" % (m, exp["tol"], ld - exp["start_logdet"], need,
                                                                               exp["max_iters"]))
        return True, ""

    def nontrivial(self, case, res):
        A = np.array(case["A"], dtype=np.float64)
        return bool(res.get("ok")) and A.shape[0] > A.shape[1] and np.linalg.matrix_rank(A) == A.shape[1]

    def signature(self, case):
        t = case["tags"]
        return "%s;%s;%d;%d;%s;%s" % (t["routine"], t["kind"], t["n"], t["r"], json.dumps(case["args"], sort_keys=True), t["order"])

    def coq_term(self, case, res):
        return None
