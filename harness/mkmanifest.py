"""Writes MANIFEST.json from the table below (kept in one place so it is always valid)."""
import json, os
V = os.path.dirname(os.path.dirname(os.path.abspath(__file__)))
PY = "/venv/bin/python harness/check.py"
CLAIMED = json.load(open(os.path.join(V, "harness", "claims.json")))
props = [json.loads(l) for l in open(os.path.join(V, "properties.jsonl"))]
checks = []; na = []
for p in props:
    pid = p["id"]
    if pid in CLAIMED:
        c = CLAIMED[pid]
        checks.append({
            "property_id": pid,
            "quick_cmd": "%s --property %s --tier quick" % (PY, pid),
            "thorough_cmd": "%s --property %s --tier thorough" % (PY, pid),
            "evidence_file": "/verif/evidence/%s.json" % pid,
            "replay_cmd_template": PY + " --replay {path}",
            "engine": "coq-model+correspondence",
            "level_claimed": {"category": c.get("category", "proof"), "text": c["text"], "design_ref": c.get("design_ref", "DESIGN.md section 4, " + pid)},
            "level_note": c["note"],
            "technique": c.get("technique", "machine-checked proof in Coq 8.16 of a hand-written executable model, tied to /repo by exact differential correspondence (vm_compute) on every run"),
        })
    else:
        na.append({"property_id": pid, "reason": "not yet claimed: model and theorems pending in this build (no check registered); not a statement that the technique cannot apply"})
m = {"version": 1,
     "setup_cmd": "cd /verif && /venv/bin/python harness/check.py --setup",
     "hooks": {"guard": "TNTORCH_VERIF", "enable": "no hooks in /repo are needed: oracles, dtype configuration and observation are done from outside the package; checks set TNTORCH_VERIF=1 anyway",
               "baseline_off_cmd": "cd /repo && /venv/bin/python -m pytest -ra -q -p no:cacheprovider --timeout=900 --continue-on-collection-errors",
               "source_commits": [], "add_only": True},
     "engines": [{"name": "coq-model+correspondence", "path": "/verif/coq, /verif/harness", "serves_properties": sorted(CLAIMED),
                  "kind_free_text": "Coq 8.16.1 development (ring-generic tensor-network semantics, kernel models, property theorems) + Python differential harness evaluating the Coq models with vm_compute against /repo"}],
     "checks": checks, "not_applicable": na,
     "notes": "See DESIGN.md. Every check regenerates Gen/*.v from /repo, rebuilds the Coq cone of Properties/<id>.v, runs the implementation on generated cases, compares with the dense specification and with the Coq model."}
json.dump(m, open(os.path.join(V, "MANIFEST.json"), "w"), indent=1)
print("claimed", sorted(CLAIMED), "pending", [x["property_id"] for x in na])
