From TN Require Export Harness.HBase Model.Automata.

Inductive op16 :=
| OMask (w nss : list nat)            (* tn.weight_mask(N, w, nsymbols) *)
| OWeight (nss : list nat)            (* tn.weight(N, nsymbols) *)
| OOneHot (r : nat) (nss : list nat)  (* tn.weight_one_hot(N, r, nsymbols).torch(): open bond summed *)
| OAccepted (t : tensor ZO).          (* tn.accepted_inputs(t) *)

Record case := mkCase { c_op : op16; c_dense : list Z; c_rows : list (list nat) }.

Definition check (c : case) : bool :=
  match c_op c with
  | OMask w nss => list_cmp cmpZ (dense_of (eval (K:=ZO) (weight_mask_net w nss)) nss) (c_dense c)
  | OWeight nss => list_cmp cmpZ (dense_of (eval (K:=ZO) (weight_net nss)) nss) (c_dense c)
  | OOneHot r nss => list_cmp cmpZ (dense_of (eval (K:=ZO) (one_hot_net r nss)) nss) (c_dense c)
  | OAccepted t => list_eqb (list_eqb Nat.eqb) (accepted_inputs (sem t)) (c_rows c)
  end.
