"""C01: lossless round trip, format independence, shape/ranks accessors."""
from lib import *

OPS = ["tt", "decompress_all", "decompress_sel", "cp_to_tt", "transpose", "clone", "numpy",
       "orthogonalize", "left_orthogonalize", "right_orthogonalize", "factor_orthogonalize", "as_leaf",
       "round_tt", "round_tucker", "round", "tn_round_tt", "tn_round_tucker", "tn_round"]
EXACT = {"tt", "decompress_all", "decompress_sel", "cp_to_tt", "transpose", "clone", "numpy"}


def actual_bonds(t):
    c0 = t.cores[0]
    first = c0.shape[0] if c0.dim() == 3 else c0.shape[1]
    return [first] + [c.shape[-1] for c in t.cores]


class Prop:
    ID = "C01"
    COQ_HEADER = "From TN Require Import Harness.H_C01.\nOpen Scope Z_scope.\n"
    CHECK_FN = "check"
    RULE = ("round trips: every shape with N<=4 (quick; N<=5 thorough) and sizes in {1,2,3} (enumerated) with integer data needing >24 "
            "mantissa bits, under both default dtypes, plus all-zero arrays; re-expressions (tt, decompress all/subset/int, _cp_to_tt, "
            "transpose, clone, numpy, orthogonalize(mu), round_tt/round_tucker/round and copying variants at the default tolerance) on "
            "tensors from the enumerated format lattice (N=1,2) and seeded ones (N=3,4) with ranks above sizes, rank-deficient cores, wide "
            "factors. non-trivial = non-zero result; distinct = (operation, format signature, shape, default dtype).")
    TRUSTED = ["correspondence runner harness/props/c01.py + Harness/H_C01.v (exact integer comparison of dense results and shapes)",
               "models Model/FullRank.v and Model/Convert.v are hand-written, tied by correspondence",
               "orthogonalize/round at the default tolerance are only compared with the dense specification here (their model is C13/C04)"]
    ASSUMPTIONS = ["floating-point rounding not modelled; dtype clause decided by implementation-vs-specification runs under default float32"]
    THEOREMS = ["C01_roundtrip", "C01_decompress", "C01_cp_trick", "C01_cp_to_tt", "C01_tt", "C01_transpose", "C01_clone", "C01_shape_ranks"]

    def generate(self, rng, tier):
        quick = tier == "quick"
        cases = []
        # (a) round trips
        maxN = 4 if quick else 5
        for N in range(1, maxN + 1):
            for shape in itertools.product([1, 2, 3], repeat=N):
                if quick and N >= 3 and rng.random() > (0.5 if N == 3 else 0.2):
                    continue
                n = int(np.prod(shape))
                kind = rng.choice(["rand", "rand", "big", "zero"])
                if kind == "zero":
                    x = [0] * n
                elif kind == "big":
                    x = [rng.choice([16777217, -16777219, 3, 0]) for _ in range(n)]
                else:
                    x = [rng.randint(-5, 5) for _ in range(n)]
                dd = rng.choice(["float64", "float32"])
                cases.append({"op": "roundtrip", "shape": list(shape), "x": x, "default_dtype": dd,
                              "tags": {"op": "roundtrip", "N": N, "data": kind, "default_dtype": dd}})
        # (b) re-expressions
        def add(tj, op, **kw):
            c = {"op": op, "t": tj, "default_dtype": kw.pop("dd", "float64"),
                 "tags": {"op": op, "formats": tsig(tj), "N": len(tj["modes"])}}
            c.update(kw); c["tags"]["default_dtype"] = c["default_dtype"]
            cases.append(c)
        k = 0
        for N in (1, 2):
            for kinds in itertools.product(KINDS, repeat=N):
                for op in OPS:
                    if quick and N == 2 and rng.random() > 0.5:
                        continue
                    shape = [rng.choice([1, 2, 3, 4]) for _ in range(N)]
                    tj = rand_tensor_json(rng, shape, list(kinds), maxr=4, maxs=4)
                    self._add_op(add, rng, tj, op)
        # all-zero tensors through every re-expression (rank-1 special case of the truncated SVD)
        for op in OPS:
            for N in (1, 2, 3):
                shape = [rng.choice([2, 3]) for _ in range(N)]
                tj = rand_tensor_json(rng, shape, maxr=2, zero=True)
                if rng.random() < 0.5:       # zero only through one core
                    tj2 = rand_tensor_json(rng, shape, [(m["kind"], m["U"] is not None) for m in tj["modes"]], maxr=2)
                    k0 = rng.randrange(N)
                    for n in range(N):
                        if n != k0 and np.array(tj2["modes"][n]["core"]).shape == np.array(tj["modes"][n]["core"]).shape:
                            tj["modes"][n]["core"] = tj2["modes"][n]["core"]
                self._add_op(add, rng, tj, op)
                cases[-1]["tags"]["data"] = "zero"
        for N in (3, 4):
            for _ in range(150 if quick else 1500):
                shape = [rng.choice([1, 2, 3]) for _ in range(N)]
                tj = rand_tensor_json(rng, shape, maxr=3, maxs=3, zero=(rng.random() < 0.05))
                self._add_op(add, rng, tj, rng.choice(OPS), dd=rng.choice(["float64", "float64", "float32"]))
        # graded spectra at small / large overall magnitude: the default tolerance is relative, so every component
        # far above 1e-14 relative must survive rounding whatever the scale of the data (compared relatively)
        ROUND_OPS = ["round_tt", "round_tucker", "round", "tn_round_tt", "tn_round_tucker", "tn_round"]
        for scale in (1.0, 1e-6, 1e-10, 1e-12, 1e-15, 1e-20, 1e8):
            for rep in range(2 if quick else 8):
                N = rng.choice([2, 3])
                shape = [rng.choice([4, 5, 6]) for _ in range(N)]
                kinds = [("cp", rng.random() < 0.3) for _ in range(N)]
                while True:
                    tj = rand_tensor_json(rng, shape, kinds, maxr=3, lo=-3, hi=3, maxs=4)
                    R = np.array(tj["modes"][0]["core"]).shape[1]
                    if R == 3 and np.linalg.matrix_rank(dense_np(tj).reshape(shape[0], -1)) == 3:
                        break
                base = np.array(tj["modes"][0]["core"], dtype=float)
                for grade, wts in (("graded", [1.0, 1e-2, 1e-4]), ("faint", [1.0, 3e-7, 2e-9])):
                    # "faint": a genuine component 2e-9 of the largest - far above the 1e-14 default tolerance
                    if grade == "faint" and rep > 0 and quick:
                        continue
                    w = np.array(wts) * scale
                    tj2 = json.loads(json.dumps(tj))
                    tj2["modes"][0]["core"] = (base * w[None, :]).tolist()
                    for op in ROUND_OPS:
                        add(tj2, op, rel=True)
                        cases[-1]["tags"].update(data=grade, scale="%g" % scale)
        # the same array in a badly scaled gauge: columns of a Tucker factor multiplied by powers of two, the matching
        # core slices by the inverse powers (exact in binary floating point).  A component that is ~1e-16 in the core
        # but O(1) in the array must survive every re-expression
        for rep in range(12 if quick else 80):
            N = rng.choice([1, 2, 3])
            shape = [rng.choice([3, 4, 5]) for _ in range(N)]
            pos = rng.choice([N - 1, N - 1, rng.randrange(N)])        # the last mode most often
            kinds = [(rng.choice(["tt", "cp"]), n == pos or rng.random() < 0.3) for n in range(N)]
            tries = 0
            while True:
                tries += 1
                tj = rand_tensor_json(rng, shape, kinds, maxr=3, lo=-3, hi=3, maxs=3)
                U = np.array(tj["modes"][pos]["U"], dtype=float)
                S = U.shape[1]
                if (S >= 2 and np.linalg.matrix_rank(U) == S and np.abs(dense_np(tj)).max() > 0) or tries > 200:
                    break
            if tries > 200:
                continue
            pw = [0] + [rng.choice([27, 40, 54]) * j for j in range(1, S)]
            rng.shuffle(pw)
            w = np.array([2.0 ** e for e in pw])
            m = tj["modes"][pos]
            m["U"] = (U * w[None, :]).tolist()
            c = np.array(m["core"], dtype=float)
            m["core"] = (c / w[None, :, None] if m["kind"] == "tt" else c / w[:, None]).tolist()
            for op in ROUND_OPS + ["orthogonalize", "tt", "decompress_all", "transpose"]:
                self._add_op(add, rng, tj, op)
                cases[-1]["rel"] = True
                cases[-1]["tags"].update(data="scaled-gauge", gauge_mode="last" if pos == N - 1 else "inner")
        return cases

    def _add_op(self, add, rng, tj, op, dd="float64"):
        N = len(tj["modes"])
        if op == "decompress_sel":
            r = rng.random()
            if r < 0.3:
                add(tj, op, dim=rng.randrange(N), dd=dd)      # an int
            else:
                add(tj, op, dim=sorted(rng.sample(range(N), rng.randint(0, N))), dd=dd)
        elif op == "orthogonalize":
            add(tj, op, mu=rng.randint(-N, N - 1), dd=dd)
        elif op == "factor_orthogonalize":
            add(tj, op, mu=rng.randint(0, N - 1), dd=dd)
        elif op in ("left_orthogonalize", "right_orthogonalize"):
            if N >= 2:        # the single-core steps, called directly on whatever format the tensor is in
                add(tj, op, mu=rng.randint(0, N - 2) if op[0] == "l" else rng.randint(1, N - 1), dd=dd)
        else:
            add(tj, op, dd=dd)

    def _apply(self, t, case):
        op = case["op"]
        if op == "tt": return t.tt()
        if op == "decompress_all": return t.decompress_tucker_factors()
        if op == "decompress_sel": return t.decompress_tucker_factors(dim=case["dim"])
        if op == "cp_to_tt":
            r = t.clone(); r._cp_to_tt(); return r
        if op == "transpose": return tn.transpose(t)
        if op == "clone": return t.clone()
        if op == "numpy": return t
        if op == "orthogonalize":
            r = t.clone(); r.orthogonalize(case["mu"]); return r
        if op in ("left_orthogonalize", "right_orthogonalize", "factor_orthogonalize"):
            r = t.clone(); getattr(r, op)(case["mu"]); return r
        if op == "as_leaf":
            r = t.clone(); r.as_leaf(); return r
        if op in ("round_tt", "round_tucker", "round"):
            r = t.clone(); getattr(r, op)(); return r
        if op == "tn_round_tt": return tn.round_tt(t)
        if op == "tn_round_tucker": return tn.round_tucker(t)
        if op == "tn_round": return tn.round(t)
        raise ValueError(op)

    def run(self, case):
        old = torch.get_default_dtype()
        try:
            torch.set_default_dtype(torch.float32 if case["default_dtype"] == "float32" else torch.float64)
            if case["op"] == "roundtrip":
                x = torch.tensor(case["x"], dtype=torch.float64).reshape(case["shape"])
                t = tn.Tensor(x)
                d = t.torch()
                pre = None
            else:
                t0 = to_tn(case["t"])
                pre = t0.torch().clone()
                t = self._apply(t0, case)
                d = torch.as_tensor(t.numpy()) if case["op"] == "numpy" else t.torch()
                post = t0.torch()
                if not torch.equal(pre, post) or from_tn(t0) != json.loads(json.dumps(from_tn(to_tn(case["t"])))):
                    return {"ok": False, "err": "OperandChanged", "msg": "source tensor changed by a copying operation"}
            return {"ok": True, "shape": list(d.shape), "rshape": [int(s) for s in t.shape],
                    "dense": d.detach().double().reshape(-1).tolist(), "dtype": str(d.dtype).replace("torch.", ""),
                    "ranks_tt": [int(r) for r in t.ranks_tt], "bonds": [int(b) for b in actual_bonds(t)],
                    "ranks_tucker": [int(r) for r in t.ranks_tucker], "spat": [int(c.shape[-2]) for c in t.cores],
                    "pure_tt": all(c.dim() == 3 for c in t.cores) and all(U is None for U in t.Us),
                    "no_U": all(U is None for U in t.Us)}
        except Exception as e:
            return {"ok": False, "err": type(e).__name__, "msg": str(e)[:200]}
        finally:
            torch.set_default_dtype(old)

    def expected(self, case):
        if case["op"] == "roundtrip":
            return {"ok": True, "shape": case["shape"], "dense": [float(v) for v in case["x"]]}
        d = dense_np(case["t"])
        if case["op"] == "transpose":
            d = d.transpose()
        return {"ok": True, "shape": list(d.shape), "dense": d.reshape(-1).tolist()}

    def agree(self, case, res, exp):
        if not res["ok"]:
            return False, "implementation raised %s: %s" % (res.get("err"), res.get("msg"))
        if res["shape"] != exp["shape"] or res["rshape"] != exp["shape"]:
            return False, "shape: decompressed %s, reported %s, expected %s" % (res["shape"], res["rshape"], exp["shape"])
        if res["ranks_tt"] != res["bonds"]:
            return False, "reported ranks_tt %s differ from actual bond sizes %s" % (res["ranks_tt"], res["bonds"])
        if res["ranks_tucker"] != res["spat"]:
            return False, "reported ranks_tucker differ from core sizes"
        if res["dtype"] != "float64":
            return False, "dtype %s for float64 data" % res["dtype"]
        a = np.array(res["dense"]); b = np.array(exp["dense"])
        tol = 0.0 if (case["op"] in EXACT or case["op"] == "roundtrip") else 1e-10
        if case.get("rel"):          # relative to the magnitude of the data, whatever it is
            m = float(np.max(np.abs(b))) if b.size else 1.0
            a = a / m; b = b / m
        if not close(a, b, tol):
            return False, "values differ (max abs difference %s)" % (np.max(np.abs(a - b)) if a.size else 0)
        if case["op"] == "tt" and not res["pure_tt"]:
            return False, "tt() result is not in pure TT format"
        if case["op"] == "decompress_all" and not res["no_U"]:
            return False, "decompress_tucker_factors() left a factor"
        return True, ""

    def nontrivial(self, case, res):
        return res.get("ok") and any(abs(x) > 0 for x in res["dense"])

    def signature(self, case):
        t = case["tags"]
        return "%s;%s;%s;%s" % (t["op"], t.get("formats"), case.get("shape") or tshape(case["t"]), t["default_dtype"])

    def coq_term(self, case, res):
        if not res["ok"] or case["default_dtype"] != "float64":
            return None
        op = case["op"]
        dense = canon_dense(res["dense"])
        if dense is None:
            dense = [10 ** 9]
        tail = "%s %s" % (coq_natlist(res["shape"]), coq_list(dense))
        if op == "roundtrip":
            if max(abs(v) for v in case["x"] + [0]) > 10 ** 6:
                return None
            return "mkCase (ORoundtrip %s %s) %s" % (coq_natlist(case["shape"]), coq_list(case["x"]), tail)
        if any(not float(v).is_integer() for m in case["t"]["modes"] for v in flat(m["core"]) + (flat(m["U"]) if m["U"] is not None else [])):
            return None               # the exact comparison is over Z: scaled gauges / graded spectra are output-checked
        t = coq_tensor(case["t"])
        N = len(case["t"]["modes"])
        if op == "tt": return "mkCase (OTT %s) %s" % (t, tail)
        if op == "decompress_all": return "mkCase (ODecomp %s %s) %s" % ("[" + ";".join(["true"] * N) + "]", t, tail)
        if op == "decompress_sel":
            dim = case["dim"]
            sel = [True] * N if isinstance(dim, int) and False else None
            if isinstance(dim, int):
                # the code turns an int into [dim]*N: `n in dim` is then true only for n == dim
                sel = [n == dim for n in range(N)]
            else:
                sel = [n in dim for n in range(N)]
            return "mkCase (ODecomp %s %s) %s" % ("[" + ";".join("true" if b else "false" for b in sel) + "]", t, tail)
        if op == "cp_to_tt": return "mkCase (OCpToTT %s) %s" % (t, tail)
        if op == "transpose": return "mkCase (OTranspose %s) %s" % (t, tail)
        if op in ("clone", "numpy"): return "mkCase (OClone %s) %s" % (t, tail)
        return None
