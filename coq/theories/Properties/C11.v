(* C11 -- assignment into a compressed tensor equals assignment into the dense array.  Statements only.
   Model: Model/SetItem.v (result = src - subtract + add on networks; keys as per-mode (start, step, count)). *)
From TN Require Import Proofs.SetItemP.
From TN Require Import Alg.Inst.
Section C11.
Variable K : Ops.
Hypothesis Kth : laws K.
Local Open Scope K_scope.
Notation net := (list (score K)).

(* t[key] = scalar: selected entries take the value, every other entry is unchanged (any N, ranks, keys) *)
Theorem C11_scalar : forall (cs res : net) (regs : list region) (c : K),
  good K cs -> length regs = length cs -> setitem_scalar cs regs c = Some res ->
  good K res /\ sshape res = sshape cs /\
  forall idx, in_range (sshape cs) idx = true -> eval res idx = if all_in regs idx then c else eval cs idx.
Proof. exact (setitem_scalar_sound K Kth). Qed.

(* t[key] = tensor of the selected shape *)
Theorem C11_tensor : forall (cs vs res : net) (regs : list region),
  good K cs -> length regs = length cs -> good K vs -> sshape vs = map r_count regs ->
  Forall (fun r => (0 < r_step r)%nat) regs -> setitem_tensor cs regs vs = Some res ->
  good K res /\ sshape res = sshape cs /\
  forall idx, in_range (sshape cs) idx = true ->
    eval res idx = if all_in regs idx then eval vs (all_pos regs idx) else eval cs idx.
Proof. exact (setitem_tensor_sound K Kth). Qed.

(* every sequence of successive (scalar) assignments on the same tensor *)
Theorem C11_history : forall (ops : list (list region * K)) (cs res : net) (f : list nat -> K),
  good K cs -> Forall (fun o => length (fst o) = length cs) ops ->
  (forall idx, in_range (sshape cs) idx = true -> eval cs idx = f idx) ->
  setitems K cs ops = Some res ->
  sshape res = sshape cs /\
  forall idx, in_range (sshape cs) idx = true -> eval res idx = dense_assign K f ops idx.
Proof. exact (setitems_sound K Kth). Qed.
End C11.
Print Assumptions C11_scalar.
Print Assumptions C11_tensor.
Print Assumptions C11_history.
