(* Python's sum([t_0, ..., t_{k-1}]) on tensors (0 + t_0 + t_1 + ...), as used by derivatives.laplacian / divergence:
   the result decompresses to the entrywise sum. *)
From TN Require Export Proofs.ArithP.
Section SumNets.
Variable K : Ops.
Hypothesis Kth : laws K.
Add Ring Kring : Kth.
Local Open Scope K_scope.
Notation net := (list (score K)).

Fixpoint add_all (acc : net) (l : list net) : option net :=
  match l with [] => Some acc | x :: l' => match add_net acc x with Some a => add_all a l' | None => None end end.
(* sum(l) = ((0 + l_0) + l_1) + ... ; 0 + t is t.__radd__(0) = t + 0 *)
Definition py_sum (l : list net) : option net :=
  match l with [] => None | x :: l' => match sadd_net 0 x with Some a => add_all a l' | None => None end end.
Fixpoint sum_evals (l : list net) (idx : list nat) : K :=
  match l with [] => 0 | x :: l' => eval x idx + sum_evals l' idx end.

Lemma add_all_sound (l : list net) : forall (acc r : net) sh, good K acc -> sshape acc = sh ->
  Forall (fun x => good K x /\ sshape x = sh) l -> add_all acc l = Some r ->
  good K r /\ sshape r = sh /\ forall idx, in_range sh idx = true -> eval r idx = eval acc idx + sum_evals l idx.
Proof.
  induction l as [|x l IH]; intros acc r sh Ga Sa Hl H; cbn in H.
  - injection H as <-. split; [exact Ga|split; [exact Sa|]]. intros; cbn; ring.
  - inversion Hl as [|y l0 [Gx Sx] Hl']; subst y l0.
    destruct (add_net acc x) as [a|] eqn:Ea; [|discriminate].
    destruct (add_net_sound K Kth acc x a Ga Gx Ea) as (G & B & E).
    rewrite Sa, Sx, bshape_same in B. injection B as B. symmetry in B.
    destruct (IH a r sh G B Hl' H) as (Gr & Sr & Er). split; [exact Gr|split; [exact Sr|]].
    intros idx Hin. rewrite Er by exact Hin. cbn [sum_evals].
    rewrite E by (rewrite (in_range_length _ _ Hin), <- B; apply (sshape_length K)).
    rewrite Sa, Sx, !clip_in_range by exact Hin. ring.
Qed.

Theorem py_sum_sound (l : list net) (r : net) sh :
  Forall (fun x => good K x /\ sshape x = sh) l -> py_sum l = Some r ->
  good K r /\ sshape r = sh /\ forall idx, in_range sh idx = true -> eval r idx = sum_evals l idx.
Proof.
  intros Hl H. destruct l as [|x l]; [discriminate|]. cbn in H.
  inversion Hl as [|y l0 [Gx Sx] Hl']; subst y l0.
  destruct (sadd_net 0 x) as [a|] eqn:Ea; [|discriminate].
  destruct (sadd_net_sound K Kth 0 x a Gx Ea) as (G & S & E).
  destruct (add_all_sound l a r sh G (eq_trans S Sx) Hl' H) as (Gr & Sr & Er). split; [exact Gr|split; [exact Sr|]].
  intros idx Hin. rewrite Er by exact Hin. cbn [sum_evals]. rewrite E by (rewrite Sx; exact Hin). ring.
Qed.
End SumNets.
