(* Model/Heap.v -- aliasing / heap model of tntorch's object graph (property C14, value semantics).

   Everything the Python implementation can alias is a CELL:
     kind 1  a tntorch.Tensor object        refs = [its `cores` list object; its `Us` list object]
     kind 2  a Python list object            refs = the torch tensors it holds (cell 1 = None entry)
     kind 3  a torch.Tensor object           pay  = its view metadata (shape, stride, offset, dtype)
                                             refs = [its storage]
     kind 4  a torch storage                 pay  = its bytes
     kind 5  a Python list passed as argument (dims, marginals, cat list)   refs = its elements
     kind 6  a NumPy array object            pay = shape/strides/dtype, refs = [its buffer]
     kind 7  a NumPy buffer                  pay = its bytes
     kind 0  the None entry (never written)
   Several objects may reach the same cell: tntorch shares core tensors, storages and even list objects between a
   tensor and tensors derived from it (t[key], decompress_tucker_factors(_clone=False), _cp_to_tt views, ttm's idxs ...).

   An operation's EFFECT is a list of primitive events:
     Alloc c n     a fresh cell appears with content n
     Write c p     in-place mutation of the payload of a cell (core *= x, core[...] = v, m /= s, transpose_ ...)
     Rebind c rs   the outgoing references of a cell are replaced (self.cores[i] = ..., self.cores = ..., list.append)
     NewObject r   r becomes a live object (result tensor, argument array)
   What an object "decompresses to" is ANY function of the tree obtained by unfolding the heap from its root
   (payloads and shape of the graph, not the cell identities).  No proofs here (Proofs/HeapP.v). *)
From Coq Require Import List ZArith PArith Bool FMapPositive.
Import ListNotations.

Definition cell := positive.
Record node := mkNode { knd : Z; pay : Z; refs : list cell }.
Definition nil_node := mkNode 0 0 [].
Definition store := PositiveMap.t node.
Definition heap := cell -> node.
Definition hget (m : store) : heap :=
  fun c => match PositiveMap.find c m with Some n => n | None => nil_node end.
Definition allocated (m : store) (c : cell) : bool := PositiveMap.mem c m.

Record state := mkState { hp : store; live : list cell }.
Definition empty_state := mkState (PositiveMap.empty node) [].

Inductive event :=
| Alloc (c : cell) (n : node)
| Write (c : cell) (p : Z)
| Rebind (c : cell) (rs : list cell)
| NewObject (r : cell).

Definition set_pay (n : node) (p : Z) := mkNode (knd n) p (refs n).
Definition set_refs (n : node) (rs : list cell) := mkNode (knd n) (pay n) rs.

Definition apply (s : state) (e : event) : state :=
  match e with
  | Alloc c n => mkState (PositiveMap.add c n (hp s)) (live s)
  | Write c p => mkState (PositiveMap.add c (set_pay (hget (hp s) c) p) (hp s)) (live s)
  | Rebind c rs => mkState (PositiveMap.add c (set_refs (hget (hp s) c) rs) (hp s)) (live s)
  | NewObject r => mkState (hp s) (live s ++ [r])
  end.

(* ---- what an object is worth: the unfolding of the heap from its root, to depth d *)
Inductive tree := T (k p : Z) (ch : list tree).

Fixpoint unfold (d : nat) (h : heap) (c : cell) : tree :=
  match d with
  | O => T (knd (h c)) (pay (h c)) []
  | S d' => T (knd (h c)) (pay (h c)) (map (unfold d' h) (refs (h c)))
  end.

Fixpoint reach (d : nat) (h : heap) (c : cell) : list cell :=
  match d with
  | O => [c]
  | S d' => c :: flat_map (reach d' h) (refs (h c))
  end.

Fixpoint tree_eqb (a b : tree) {struct a} : bool :=
  match a, b with
  | T k p ch, T k' p' ch' =>
      Z.eqb k k' && Z.eqb p p' &&
      (fix go (l : list tree) (l' : list tree) {struct l} : bool :=
         match l, l' with
         | [], [] => true
         | x :: t, y :: t' => tree_eqb x y && go t t'
         | _, _ => false
         end) ch ch'
  end.

(* decompression: any observation of the unfolding *)
Definition decomp {D : Type} (F : tree -> D) (d : nat) (s : state) (r : cell) : D := F (unfold d (hget (hp s)) r).

(* ---- steps, histories, the safety discipline *)
Definition touched (e : event) : option cell :=
  match e with Alloc c _ | Write c _ | Rebind c _ => Some c | NewObject _ => None end.

Definition is_tgt (tgt : option cell) (r : cell) : bool :=
  match tgt with Some t => Pos.eqb t r | None => false end.

Definition memc (c : cell) (l : list cell) : bool := existsb (Pos.eqb c) l.

(* the cells reachable from some live object other than the in-place target *)
Definition others (d : nat) (s : state) (tgt : option cell) : list cell :=
  flat_map (reach d (hget (hp s))) (filter (fun r => negb (is_tgt tgt r)) (live s)).

Definition safe_event (F : list cell) (e : event) : bool :=
  match touched e with Some c => negb (memc c F) | None => true end.

Record step := mkStep { s_tgt : option cell; s_evs : list event }.

(* "never Alloc over / Write / Rebind a cell that another live object reaches" *)
Definition safe_step (d : nat) (s : state) (st : step) : bool :=
  forallb (safe_event (others d s (s_tgt st))) (s_evs st).

Definition exec (s : state) (st : step) : state := fold_left apply (s_evs st) s.
Definition run (s : state) (hs : list step) : state := fold_left exec hs s.

Fixpoint safe_run (d : nat) (s : state) (hs : list step) : bool :=
  match hs with
  | [] => true
  | st :: tl => safe_step d s st && safe_run d (exec s st) tl
  end.

(* closed states: references and live roots point to allocated cells *)
Definition closed (s : state) : Prop :=
  (forall c x, allocated (hp s) c = true -> In x (refs (hget (hp s) c)) -> allocated (hp s) x = true) /\
  (forall r, In r (live s) -> allocated (hp s) r = true).

(* ---- the effect table: what each class of public operation may do, read off the code of /repo/tntorch --------------
   share   : the result (or the target after an in-place method) may reach cells that existed before the step
             (views / un-cloned cores, factors, lists of an operand)
   rebind  : may Rebind list / Tensor-object cells reachable from the target (self.cores[i] = ..., self.__init__(...))
   write   : may Write the payload of a cell that existed before the step (NO operation of /repo does)          *)
Inductive opclass :=
| KCreate      (* ones_like / zeros_like / rand_like / full_like, creation routines: create.py (fresh cores) *)
| KFromDense   (* Tensor(dense torch array / ndarray, ...): tensor.py:195-198 keeps the caller's torch array (`data.to(device)` is the
                  same object) and _full_rank_tt (tensor.py:10-110) reshapes it: the last core is a VIEW of the caller's array *)
| KClone       (* clone(): tensor.py:2251-2270 clones every core and factor *)
| KGetitem     (* t[key]: tensor.py:1080-1463, basic slices are torch views of the operand's cores / factors *)
| KView        (* decompress_tucker_factors(_clone=False) 1659-1660; squeeze/unsqueeze/unbind via t[key] (tools.py:14-53, 196-211);
                  transpose: permuted views of TT cores and the very CP core objects (tools.py:119-122; factors are cloned);
                  dot(t1, t2, k) with trailing modes of t2 only: Tensor(t2.cores[k:], t2.Us[k:]) un-cloned (metrics.py:116-118) *)
| KCopyTool    (* tt() = decompress(clone) + _cp_to_tt, flip/pad/repeat/cat on clones,
                  ttm (clones untouched cores, tools.py:269-328), cumsum, mask, sum/mean over modes, dot(k), partial/gradient/laplacian, anova ... *)
| KArith       (* + - * / neg, logic: tensor.py:445-860; new cores by einsum/cat; scalar * clones first *)
| KRoundCopy   (* tn.round_tt / round_tucker / round: round.py:7-49 clone then round in place *)
| KMetric      (* dot, dist, norm, sum, mean, var, moments, hash, sample, info, ==, torch(), item: metrics.py, tensor.py *)
| KSens        (* sobol, mean_dimension, dimension_distribution, dgsm, active_subspace: anova.py, derivatives.py (normalise marginals out of place) *)
| KCross       (* cross, elementwise functions, minimum/maximum: cross.py *)
| KRoundIn     (* t.round_tt / round_tucker / round / rank setters: tensor.py:1945-2130 rebind self.cores[mu], self.Us[mu] *)
| KOrthoIn     (* orthogonalize, left/right/factor_orthogonalize: tensor.py:1806-1940 rebind *)
| KSetitem     (* t[key] = v: tensor.py:1465-1598 builds src - sub + add and re-runs __init__ on self (rebinds self.cores, self.Us) *)
| KSetFactors  (* set_factors: tensor.py:2196-2228 rebinds self.Us[m] (and self.cores[m]) *)
| KLeaf        (* as_leaf: tensor.py:2231-2250 rebinds to detached clones *)
| KHarness     (* not an operation: the test harness registering the initial pool / argument arrays (allocations only) *)
| KConvIn.     (* _cp_to_tt (rebinds to views of the target's OWN cores: [None, ...], transpose()[..., None]: no new sharing) 1752-1775,
                  to(device) 1724-1741 (rebinds every entry; same device = same object) *)

Record perm := mkPerm { p_share : bool; p_rebind : bool; p_write : bool }.

Definition table (k : opclass) : perm :=
  match k with
  | KCreate => mkPerm false false false
  | KFromDense => mkPerm true false false
  | KClone => mkPerm false false false
  | KGetitem => mkPerm true false false
  | KView => mkPerm true false false
  | KCopyTool => mkPerm false false false
  | KArith => mkPerm false false false
  | KRoundCopy => mkPerm false false false
  | KMetric => mkPerm false false false
  | KSens => mkPerm false false false
  | KCross => mkPerm false false false
  | KRoundIn => mkPerm false true false
  | KOrthoIn => mkPerm false true false
  | KSetitem => mkPerm false true false
  | KSetFactors => mkPerm false true false
  | KLeaf => mkPerm false true false
  | KHarness => mkPerm true false false
  | KConvIn => mkPerm false true false
  end.

(* does an observed effect stay within a table entry?  s = state before the step, s' = state after it *)
Definition pre_existing (s : state) (c : cell) : bool := allocated (hp s) c.

Definition event_allowed (d : nat) (p : perm) (s : state) (tgt : option cell) (e : event) : bool :=
  match e with
  | Alloc c _ => negb (pre_existing s c)
  | Write c _ => negb (pre_existing s c) || p_write p
  | Rebind c _ =>
      negb (pre_existing s c) ||
      (let k := knd (hget (hp s) c) in
       if (Z.eqb k 1 || Z.eqb k 2)%bool
       then p_rebind p && match tgt with Some t => memc c (reach d (hget (hp s)) t) | None => false end
       else p_write p)
  | NewObject _ => true
  end.

(* cells of kind 0 (None) are shared by everybody and never written *)
Definition shares (d : nat) (s s' : state) (r : cell) : bool :=
  existsb (fun c => pre_existing s c && negb (Z.eqb (knd (hget (hp s') c)) 0)) (reach d (hget (hp s')) r).

Definition new_roots (evs : list event) : list cell :=
  flat_map (fun e => match e with NewObject r => [r] | _ => [] end) evs.

(* cells the target reaches after the step that it did not reach before, yet existed before: newly shared *)
Definition target_shares (d : nat) (s s' : state) (t : cell) : bool :=
  let before := reach d (hget (hp s)) t in
  existsb (fun c => pre_existing s c && negb (memc c before) && negb (Z.eqb (knd (hget (hp s') c)) 0))
          (reach d (hget (hp s')) t).

Definition conforms (d : nat) (k : opclass) (s : state) (st : step) (results : list cell) : bool :=
  let p := table k in
  let s' := exec s st in
  forallb (event_allowed d p s (s_tgt st)) (s_evs st) &&
  (p_share p || (forallb (fun r => negb (shares d s s' r)) results &&
                 match s_tgt st with Some t => negb (target_shares d s s' t) | None => true end)).
