From TN Require Export Model.RankChoice.
From Coq Require Import Lqa.
Import ListNotations.
Open Scope Q_scope.

Definition nonneg (l : list Q) := Forall (fun x => 0 <= x) l.

Lemma sumq_app l1 l2 : sumq (l1 ++ l2) == sumq l1 + sumq l2.
Proof. induction l1; simpl; [lra|]. rewrite IHl1. lra. Qed.
Lemma sumq_rev l : sumq (rev l) == sumq l.
Proof. induction l; simpl; [lra|]. rewrite sumq_app. simpl. rewrite IHl. lra. Qed.
Lemma sumq_nonneg l : nonneg l -> 0 <= sumq l.
Proof. induction 1; simpl; lra. Qed.

(* the k trailing values that are dropped fit in the budget; one more would not *)
Lemma ndrop_rev_spec rs : forall acc d2, nonneg rs ->
  let k := ndrop_rev acc rs d2 in
  (k <= length rs)%nat /\
  ((0 < k)%nat -> acc + sumq (firstn k rs) <= d2) /\
  ((k < length rs)%nat -> d2 < acc + sumq (firstn (S k) rs)).
Proof.
  induction rs as [|x rs IH]; intros acc d2 Hnn; cbn [ndrop_rev].
  - cbn. repeat split; intros; lia.
  - inversion Hnn as [|? ? Hx Hnn']; subst.
    destruct (Qle_bool (acc + x) d2) eqn:E.
    + apply Qle_bool_iff in E. destruct (IH (acc + x) d2 Hnn') as (L & A & B).
      cbv zeta. cbn [length]. split; [lia|]. split.
      * intros _. cbn [firstn sumq]. destruct (ndrop_rev (acc + x) rs d2) as [|k] eqn:Ek.
        -- cbn. lra.
        -- specialize (A ltac:(lia)). lra.
      * intros Hlt. cbn [firstn sumq]. specialize (B ltac:(lia)). cbn [firstn sumq] in B. lra.
    + cbv zeta. cbn [length]. split; [lia|]. split; [lia|]. intros _. cbn [firstn sumq].
      assert (~ acc + x <= d2) by (intros H; apply Qle_bool_iff in H; congruence). lra.
Qed.

Lemma skipn_rev_firstn {A} (l : list A) k : (k <= length l)%nat -> skipn (length l - k) l = rev (firstn k (rev l)).
Proof.
  intros Hk. rewrite (firstn_skipn_rev k (rev l)). rewrite rev_involutive, rev_involutive, rev_length. reflexivity.
Qed.

(* C04_rank_choice: when no cap binds (rank = len S - ndrop >= 1, rmax large) the discarded energy is within
   the budget, and keeping one value fewer would exceed it *)
Theorem rank_choice_sound (S : list Q) (d2 : Q) : nonneg S ->
  let k := ndrop S d2 in
  (k <= length S)%nat /\
  tail_energy S (length S - k) <= d2 \/ k = O.
Proof.
  intros Hnn k. unfold k, ndrop.
  assert (Hr: nonneg (rev S)) by (unfold nonneg; apply Forall_rev; exact Hnn).
  destruct (ndrop_rev_spec (rev S) 0 d2 Hr) as (L & A & _). cbv zeta in *. rewrite rev_length in L.
  destruct (ndrop_rev 0 (rev S) d2) as [|k0] eqn:E; [right; reflexivity|].
  left. split; [exact L|]. unfold tail_energy.
  rewrite skipn_rev_firstn by exact L. rewrite sumq_rev. specialize (A ltac:(lia)). lra.
Qed.

Theorem rank_choice_minimal (S : list Q) (d2 : Q) : nonneg S ->
  let k := ndrop S d2 in (k < length S)%nat ->
  d2 < tail_energy S (length S - (k + 1)).
Proof.
  intros Hnn k Hlt. unfold k, ndrop in *.
  assert (Hr: nonneg (rev S)) by (unfold nonneg; apply Forall_rev; exact Hnn).
  destruct (ndrop_rev_spec (rev S) 0 d2 Hr) as (L & _ & B). cbv zeta in *. rewrite rev_length in *.
  specialize (B Hlt). unfold tail_energy.
  rewrite skipn_rev_firstn by lia. rewrite sumq_rev. rewrite Nat.add_1_r. lra.
Qed.

(* ranks never exceed the spectrum length nor rmax, and are at least 1 *)
Theorem rank_bounds (S : list Q) d2 rmax null : (1 <= rmax)%nat -> (1 <= length S)%nat ->
  (1 <= choose_rank S d2 rmax null <= Nat.min rmax (length S))%nat.
Proof. intros H1 H2. unfold choose_rank. lia. Qed.

(* at least the budgeted number of values and at least the null directions are dropped (unless that would leave rank 0) *)
Theorem rank_drops (S : list Q) d2 rmax null : (Nat.max null (ndrop S d2) < length S)%nat ->
  (choose_rank S d2 rmax null <= length S - ndrop S d2 /\ choose_rank S d2 rmax null <= length S - null)%nat.
Proof. intros H. unfold choose_rank. lia. Qed.
