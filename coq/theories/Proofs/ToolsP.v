From TN Require Export Proofs.ArithP Model.Tools.

Section ToolsP.
Variable K : Ops.
Hypothesis Kth : laws K.
Add Ring Kring : Kth.
Local Open Scope K_scope.
Notation net := (list (score K)).

Lemma upd_head_rl (cs : net) k (c c' : score K) : nth_error cs k = Some c -> rl c' = rl c ->
  hd_rl K (upd k cs c') = hd_rl K cs.
Proof. destruct cs as [|a cs]; destruct k; simpl; intros H E; try discriminate; auto.
  injection H as ->. exact E. Qed.

Lemma eval_upd (cs : net) k (c c' : score K) idx (F : nat -> K) :
  nth_error cs k = Some c -> rl c' = rl c ->
  (forall p, evalv (upd k cs c') idx ones p = F p) ->
  eval (upd k cs c') idx = sumn (hd_rl K cs) F.
Proof.
  intros Hc Hrl HF. assert (Hh := upd_head_rl cs k c c' Hc Hrl).
  unfold eval. destruct (upd k cs c') as [|x xs] eqn:E.
  - destruct cs; destruct k; simpl in *; discriminate.
  - simpl in Hh. rewrite Hh. apply sumn_ext. intros p _. apply HF.
Qed.

(* a linear map on mode k *)
Theorem upd_lin_sound L d' (cs : net) k c idx i :
  nth_error cs k = Some c -> nth_error idx k = Some i ->
  eval (upd k cs (lin L d' c)) idx = sumn (dm c) (fun j => L i j * eval cs (upd k idx j)).
Proof.
  intros Hc Hi.
  rewrite (eval_upd cs k c (lin L d' c) idx
            (fun p => sumn (dm c) (fun j => L i j * evalv cs (upd k idx j) ones p))); auto.
  - rewrite (sumn_exch Kth). apply sumn_ext. intros j _. rewrite (sumn_mul_l Kth).
    f_equal. unfold eval. destruct cs as [|x cs]; [destruct k; discriminate|]. reflexivity.
  - intros p. eapply L1; eauto.
Qed.

(* re-indexing mode k *)
Theorem mode_lin_sound L d' (cs : net) k c idx i :
  nth_error cs k = Some c -> nth_error idx k = Some i ->
  eval (at_mode k (lin L d') cs) idx = sumn (dm c) (fun j => L i j * eval cs (upd k idx j)).
Proof. intros Hc Hi. unfold at_mode. rewrite Hc. apply upd_lin_sound; auto. Qed.

Theorem upd_reidx_sound g d' (cs : net) k c idx i :
  nth_error cs k = Some c -> nth_error idx k = Some i ->
  eval (upd k cs (reidx g d' c)) idx = eval cs (upd k idx (g i)).
Proof.
  intros Hc Hi.
  rewrite (eval_upd cs k c (reidx g d' c) idx (fun p => evalv cs (upd k idx (g i)) ones p)); auto.
  - unfold eval. destruct cs as [|x cs]; [destruct k; discriminate|]. reflexivity.
  - intros p. eapply L5; eauto.
Qed.

Theorem mode_reidx_sound g d' (cs : net) k c idx i :
  nth_error cs k = Some c -> nth_error idx k = Some i ->
  eval (at_mode k (reidx g d') cs) idx = eval cs (upd k idx (g i)).
Proof. intros Hc Hi. unfold at_mode. rewrite Hc. apply upd_reidx_sound; auto. Qed.

Theorem ttm_sound k rows M (cs : net) c idx i :
  nth_error cs k = Some c -> nth_error idx k = Some i ->
  eval (ttm_net k rows M cs) idx = sumn (dm c) (fun j => M i j * eval cs (upd k idx j)).
Proof. apply mode_lin_sound. Qed.

Theorem flip_sound k (cs : net) c idx i :
  nth_error cs k = Some c -> nth_error idx k = Some i ->
  eval (flip_net k cs) idx = eval cs (upd k idx (dm c - 1 - i)%nat).
Proof.
  intros Hc Hi. unfold flip_net, at_mode. rewrite Hc.
  eapply upd_reidx_sound; eauto.
Qed.

Theorem cumsum_sound k (cs : net) c idx i :
  nth_error cs k = Some c -> nth_error idx k = Some i -> (i < dm c)%nat ->
  eval (cumsum_net k cs) idx = sumn (S i) (fun j => eval cs (upd k idx j)).
Proof.
  intros Hc Hi Hlt. unfold cumsum_net, at_mode. rewrite Hc.
  rewrite (upd_lin_sound _ _ cs k c idx i Hc Hi).
  replace (dm c) with (S i + (dm c - S i))%nat by lia.
  rewrite (sumn_app Kth).
  rewrite (sumn_zero_ext Kth (dm c - S i)).
  - rewrite (sumn_ext (S i) _ (fun j => eval cs (upd k idx j))); [ring|].
    intros j Hj. destruct (Nat.leb_spec j i); [ring|lia].
  - intros j _. destruct (Nat.leb_spec (S i + j) i); [lia|ring].
Qed.

Theorem repeat_sound k r (cs : net) c idx i :
  nth_error cs k = Some c -> nth_error idx k = Some i ->
  eval (repeat_net k r cs) idx = eval cs (upd k idx (i mod dm c)%nat).
Proof.
  intros Hc Hi. unfold repeat_net, at_mode, rep_mode. rewrite Hc.
  eapply (upd_reidx_sound (fun i0 => (i0 mod dm c)%nat)); eauto.
Qed.

(* zero embedding: entries inside [off, off + dm c) are copied, all others are 0 *)
Theorem embed_sound k off tot (cs : net) c idx i :
  nth_error cs k = Some c -> nth_error idx k = Some i ->
  eval (embed_net k off tot cs) idx =
  if ((off <=? i) && (i <? off + dm c))%nat then eval cs (upd k idx (i - off)%nat) else 0.
Proof.
  intros Hc Hi. unfold embed_net, at_mode. rewrite Hc.
  rewrite (upd_lin_sound _ _ cs k c idx i Hc Hi).
  destruct (Nat.leb_spec off i) as [H1|H1]; cbn [andb].
  - destruct (Nat.ltb_spec i (off + dm c)) as [H2|H2].
    + rewrite (sumn_ext _ _ (fun j => delta (i - off)%nat j * eval cs (upd k idx j))).
      * apply (sumn_delta Kth). lia.
      * intros j Hj. unfold delta. destruct (Nat.eqb_spec i (off + j)), (Nat.eqb_spec (i - off) j); try lia; reflexivity.
    + apply (sumn_zero_ext Kth). intros j Hj. unfold delta.
      destruct (Nat.eqb_spec i (off + j)); [lia|ring].
  - apply (sumn_zero_ext Kth). intros j Hj. unfold delta.
    destruct (Nat.eqb_spec i (off + j)); [lia|ring].
Qed.

Theorem sum_sound k (cs : net) c idx i :
  nth_error cs k = Some c -> nth_error idx k = Some i ->
  eval (sum_net k cs) idx = sumn (dm c) (fun j => eval cs (upd k idx j)).
Proof.
  intros Hc Hi. unfold sum_net. rewrite (mode_lin_sound _ _ cs k c idx i Hc Hi).
  apply sumn_ext. intros; ring.
Qed.

Theorem wsum_sound k w (cs : net) c idx i :
  nth_error cs k = Some c -> nth_error idx k = Some i ->
  eval (wsum_net k w cs) idx = sumn (dm c) (fun j => w j * eval cs (upd k idx j)).
Proof. intros Hc Hi. unfold wsum_net. apply (mode_lin_sound _ _ cs k c idx i Hc Hi). Qed.

Theorem select_sound k d' g (cs : net) c idx i :
  nth_error cs k = Some c -> nth_error idx k = Some i ->
  eval (select_net k d' g cs) idx = eval cs (upd k idx (g i)).
Proof. apply mode_reidx_sound. Qed.

End ToolsP.
