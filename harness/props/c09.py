"""C09: Sobol indices equal their brute-force variance-decomposition definition.

Implementation side: tn.sobol / tn.mean_dimension / tn.dimension_distribution on a compressed tensor with a mask
built through the tntorch logic / automata API (or an explicit 2^N weight tensor in any format).
Specification side: ANOVA terms of the dense array by repeated (weighted) averaging, their variances under the
product measure, the mask read as a weight function on subsets of variables (Boolean semantics evaluated in plain
Python on the truth table).
"""
from lib import *


# --------------------------------------------------------------------------- masks: JSON spec, builder, semantics

def build_mask(spec, N):
    """the implementation's mask tensor for a JSON formula"""
    op = spec[0]
    if op == "var":
        return tn.symbols(N)[spec[1]]
    if op == "not":
        return ~build_mask(spec[1], N)
    if op == "and":
        return build_mask(spec[1], N) & build_mask(spec[2], N)
    if op == "or":
        return build_mask(spec[1], N) | build_mask(spec[2], N)
    if op == "xor":
        return build_mask(spec[1], N) ^ build_mask(spec[2], N)
    if op == "only":
        return tn.only(build_mask(spec[1], N))
    if op == "any":
        return tn.any(N, spec[1])
    if op == "all":
        return tn.all(N, spec[1])
    if op == "none":
        return tn.none(N, spec[1])
    if op == "presence":
        return tn.presence(N, spec[1])
    if op == "absence":
        return tn.absence(N, spec[1])
    if op == "true":
        return tn.true(N)
    if op == "false":
        return tn.false(N)
    if op == "one":
        return tn.one(N)
    if op == "wmask":
        return tn.weight_mask(N, spec[1])
    if op == "weight":
        return tn.weight(N)
    if op == "explicit":
        return to_tn(spec[1])
    if op == "times":      # product of weights (tn.mask of one mask by another)
        return tn.mask(build_mask(spec[1], N), build_mask(spec[2], N))
    if op == "scale":
        return build_mask(spec[2], N) * float(spec[1])
    raise ValueError(op)


def mask_fn(spec, N):
    """the weight function  {0,1}^N -> R  that the formula denotes (independent of tntorch)"""
    op = spec[0]
    sub = [mask_fn(s, N) for s in spec[1:] if isinstance(s, list) and s and isinstance(s[0], str)]
    which = lambda w: list(range(N)) if w is None else [(int(k) % N) for k in np.atleast_1d(w)]
    if op == "var":
        n = spec[1]
        return lambda b: float(b[n])
    if op == "not":
        return lambda b: 1.0 - sub[0](b)
    if op == "and":
        return lambda b: sub[0](b) * sub[1](b)
    if op == "or":
        return lambda b: float(sub[0](b) + sub[1](b) - sub[0](b) * sub[1](b))
    if op == "xor":
        return lambda b: float(sub[0](b) + sub[1](b) - 2 * sub[0](b) * sub[1](b))
    if op == "only":
        f = sub[0]
        rel = set()
        for b in itertools.product((0, 1), repeat=N):
            for n in range(N):
                b2 = list(b); b2[n] = 1 - b2[n]
                if abs(f(b) - f(tuple(b2))) > 1e-12:
                    rel.add(n)
        return lambda b: f(b) if all(b[n] == 0 for n in range(N) if n not in rel) else 0.0
    if op == "any":
        w = which(spec[1])
        return lambda b: float(any(b[n] for n in w))
    if op in ("all", "presence"):
        w = which(spec[1])
        return lambda b: float(all(b[n] for n in w))
    if op in ("none", "absence"):
        w = which(spec[1])
        return lambda b: float(not any(b[n] for n in w))
    if op == "true":
        return lambda b: 1.0
    if op == "false":
        return lambda b: 0.0
    if op == "one":
        return lambda b: float(sum(b) == 1)
    if op == "wmask":
        ws = set(int(k) for k in np.atleast_1d(spec[1]))
        return lambda b: float(sum(b) in ws)
    if op == "weight":
        return lambda b: float(sum(b))
    if op == "explicit":
        d = dense_np(spec[1])
        return lambda b: float(d[tuple(b)])
    if op == "times":
        return lambda b: sub[0](b) * sub[1](b)
    if op == "scale":
        c = float(spec[1])
        return lambda b: c * sub[0](b)
    raise ValueError(op)


def mask_is_bool(spec):
    op = spec[0]
    if op in ("weight", "explicit", "scale"):
        return False
    return all(mask_is_bool(s) for s in spec[1:] if isinstance(s, list) and s and isinstance(s[0], str))


def mask_kind(spec):
    def ops(s):
        out = {s[0]}
        for x in s[1:]:
            if isinstance(x, list) and x and isinstance(x[0], str):
                out |= ops(x)
        return out
    o = ops(spec)
    if "explicit" in o:
        return "explicit"
    if o & {"weight", "wmask", "one"}:
        return "automaton" if len(o) == 1 else "automaton+formula"
    return "formula"


def explicit_mask(rng, N, kinds=None):
    """an explicit 2^N weight tensor (small integers, any sign) in any format mix.  sobol() reads a last core with an
    open bond (> 1 columns) as 'one index per column' (that is how dimension_distribution passes weight_one_hot), so
    a scalar-valued mask must have a closed last bond: a CP core in last position gets rank 1."""
    if kinds is None:
        kinds = [rng.choice(KINDS) for _ in range(N)]
    kinds = [tuple(k) for k in kinds]
    return ["explicit", rand_tensor_json(rng, [2] * N, kinds, maxr=1 if kinds[-1][0] == "cp" else 2, maxs=2)]


def mask_format(spec):
    if spec is None:
        return "-"
    if spec[0] == "explicit":
        return tsig(spec[1])
    for s in spec[1:]:
        if isinstance(s, list) and s and isinstance(s[0], str) and mask_format(s) != "TT*":
            return mask_format(s)
    return "TT*"


def est_rank(spec):
    """upper estimate of the TT rank of the mask tensor the formula builds (to keep cases cheap)"""
    op = spec[0]
    sub = [est_rank(s) for s in spec[1:] if isinstance(s, list) and s and isinstance(s[0], str)]
    if op == "wmask":
        return int(max(np.atleast_1d(spec[1]))) + 1
    if op in ("weight", "one"):
        return 2
    if op == "explicit":
        return 4
    if op == "not":
        return sub[0] + 1
    if op in ("and", "times"):
        return sub[0] * sub[1]
    if op in ("or", "xor"):
        return sub[0] + sub[1] + sub[0] * sub[1]
    if op in ("only", "scale"):
        return sub[0]
    return 1


def mentioned(spec, N):
    """variables whose mode of the mask tensor is built with two different slices"""
    op = spec[0]
    if op == "var":
        return {spec[1]}
    if op in ("any", "all", "none", "presence", "absence"):
        return set(range(N)) if spec[1] is None else set(int(k) % N for k in np.atleast_1d(spec[1]))
    if op in ("wmask", "one", "weight", "explicit"):
        return set(range(N))
    out = set()
    for s in spec[1:]:
        if isinstance(s, list) and s and isinstance(s[0], str):
            out |= mentioned(s, N)
    return out


def only_fragile(spec, N):
    """True when some only(g) is applied to a g that mentions a variable it does not depend on (the dependence
    cancels, e.g. parity(x0..x3) ^ x0).  logic.relevant_symbols decides relevance by `norm(difference) > 1e-10` on a
    norm computed in the compressed format, where an exactly cancelling difference comes out as ~1e-8, so only()
    keeps such a variable.  That is a robustness defect of logic.py (reported for C15); formulas of this class are
    not generated here."""
    if spec[0] == "only":
        g = spec[1]
        f = mask_fn(g, N)
        rel = set()
        for b in itertools.product((0, 1), repeat=N):
            for n in range(N):
                b2 = list(b); b2[n] = 1 - b2[n]
                if abs(f(b) - f(tuple(b2))) > 1e-12:
                    rel.add(n)
        if mentioned(g, N) - rel:
            return True
    return any(only_fragile(s, N) for s in spec[1:] if isinstance(s, list) and s and isinstance(s[0], str))


def rand_formula(rng, N, depth, cheap=False, maxrank=48):
    while True:
        f = rand_formula0(rng, N, depth, cheap)
        if est_rank(f) <= maxrank:      # only() of formulas with cancelling dependence included since repo 43ace47
            return f


def rand_formula0(rng, N, depth, cheap=False):
    if depth == 0 or rng.random() < 0.25:
        r = rng.random()
        sub = sorted(rng.sample(range(N), rng.randint(1, N)))
        if r < 0.5:
            return ["var", rng.randrange(N)]
        if r < 0.6:
            return ["any", sub]
        if r < 0.7:
            return ["all", sub]
        if r < 0.8:
            return ["none", sub]
        if r < 0.9 and not cheap:
            return ["wmask", rng.choice([rng.randint(0, N), sorted(rng.sample(range(N + 1), 2))])]
        return [rng.choice(["presence", "absence"]), sub]
    r = rng.random()
    if r < 0.15:
        return ["not", rand_formula0(rng, N, depth - 1, cheap)]
    if r < 0.3:
        return ["only", rand_formula0(rng, N, depth - 1, cheap)]
    return [rng.choice(["and", "or", "xor"]), rand_formula0(rng, N, depth - 1, cheap),
            rand_formula0(rng, N, depth - 1, cheap)]


# --------------------------------------------------------------------------- dense oracle

def norm_marginals(marg, shape):
    ps = []
    for n, s in enumerate(shape):
        m = None if marg is None else marg[n]
        m = np.ones(s) if m is None else np.array(m, dtype=np.float64)
        ps.append(m / m.sum())
    return ps


def expect(y, ps):
    for n in range(y.ndim - 1, -1, -1):
        y = np.tensordot(y, ps[n], axes=([n], [0]))
    return float(y)


def anova_terms(x, ps):
    """f_S for every subset S (as a 0/1 tuple), each of the full shape"""
    N = x.ndim

    def E(y, n):
        sh = [1] * N; sh[n] = -1
        return np.broadcast_to((y * ps[n].reshape(sh)).sum(axis=n, keepdims=True), y.shape)
    terms = {}
    for b in itertools.product((0, 1), repeat=N):
        y = x.copy()
        for n in range(N):
            y = y - E(y, n) if b[n] else E(y, n)
        terms[b] = y
    return terms


def variances(x, ps):
    """(dict S -> Var f_S, total variance of x), variance = E[f^2] - E[f]^2 under the product measure"""
    terms = anova_terms(x, ps)
    var = {b: expect(f * f, ps) - expect(f, ps) ** 2 for b, f in terms.items()}
    tot = expect(x * x, ps) - expect(x, ps) ** 2
    return var, tot


def constant_on_support(x, ps):
    idx = np.ix_(*[np.nonzero(p > 0)[0] for p in ps])
    y = x[idx]
    return y.size == 0 or float(np.max(y) - np.min(y)) == 0.0


MKINDS = ["none", "listnone", "mixed", "pos", "norm", "zeros", "int"]


def rand_marginals(rng, shape, kind):
    if kind == "none":
        return None
    out = []
    for s in shape:
        if kind == "listnone" or (kind == "mixed" and rng.random() < 0.5):
            out.append(None)
        elif kind == "zeros":
            v = [rng.choice([0, 0, 1, 2, 3]) for _ in range(s)]
            if sum(v) == 0:
                v[rng.randrange(s)] = 2
            out.append(v)
        elif kind == "norm":
            v = [rng.randint(1, 4) for _ in range(s)]
            out.append([a / float(sum(v)) for a in v])
        else:
            out.append([rng.randint(1, 4) for _ in range(s)])
    return out


def torch_marginals(marg, kind):
    if marg is None:
        return None
    dt = torch.int64 if kind == "int" else torch.float64
    return [None if m is None else torch.tensor(m, dtype=dt) for m in marg]


def tolist(v):
    if isinstance(v, tn.Tensor):
        v = v.torch()
    v = torch.as_tensor(v).detach().double()
    return v.tolist()


class Prop:
    ID = "C09"
    LEVEL = "proof"
    COQ_HEADER = "From TN Require Import Harness.H_C09.\nFrom Coq Require Import QArith.\n"
    CHECK_FN = "check"
    SHARD = 25
    RULE = ("tensors: enumerated format lattice ({TT,CP}x{U,no U} per mode) for N=2 (all 16) and N=3 (all 64 in thorough, "
            "sampled in quick), seeded for N=4,5, sizes 2..4 (2..5 in thorough), ranks 1..3 (rank > size occurs), zero and "
            "constant tensors (degenerate: only the no-mutation clause is checked); masks: every single variable, "
            "only(x_n), every exact subset, any/all/none/presence/absence, random Boolean formulas of depth <= 3 with "
            "~ & | ^ only(), weight automata weight_mask(int|list)/one/weight, products of automata with formulas, "
            "explicit 2^N weight tensors in every format mix with negative weights; marginals: None, [None]*N, "
            "mixed None/vector, positive unnormalised, normalised, partly zero, int64 dtype; operations sobol "
            "(normalize on/off, plus the same call on the normalised marginals), mean_dimension and "
            "dimension_distribution (with/without mask and order), and a corollary bundle per tensor. "
            "A case is non-trivial when the total variance is non-zero and the implementation returned finite "
            "numbers; distinct = distinct (op, formats, shape, mask formula, marginal kind).")
    TRUSTED = ["dense oracle harness/props/c09.py (NumPy brute-force ANOVA, Python truth-table semantics of masks)",
               "lib.dense_np decompression of explicit tensors"]
    ASSUMPTIONS = ["floating-point comparison at 1e-9 relative (inputs are small integers, results rational)",
                   "zero total variance (and zero masked variance for masked mean dimension / distribution) is excluded: "
                   "the quotient is undefined there",
                   "only(g) is generated only for g whose irrelevant variables are syntactically absent: when the "
                   "dependence cancels (e.g. only(weight_mask(4,[1,3]) ^ x0)) logic.relevant_symbols misjudges relevance "
                   "by rounding (norm ~1e-8 against a 1e-10 threshold) - a logic.py robustness defect outside this property",
                   "marginals are torch vectors (NumPy arrays are rejected by the implementation with TypeError)"]
    THEOREMS = ["C09_sobol_parts", "C09_extended_is_anova", "C09_parseval", "C09_total_variance", "C09_num_by_subsets",
                "C09_den_by_subsets", "C09_additive", "C09_any_is_total", "C09_mean_dimension", "C09_mean_dimension_masked", "C09_components_nonneg", "C09_empty_component",
                "C09_monotone", "C09_unit_interval", "C09_mean_dimension_ge_1"]

    # ------------------------------------------------------------------ generation
    def generate(self, rng, tier):
        quick = tier == "quick"
        cases = []
        smax = 4 if quick else 5

        def shape_of(N):
            return [rng.randint(2, smax if N < 5 else 3) for _ in range(N)]

        def mk(op, t, marg, mkind, mask=None, **kw):
            N = len(t["modes"])
            tags = {"op": op, "formats": tsig(t), "N": N, "mkind": mkind,
                    "maskkind": "nomask" if mask is None else mask_kind(mask),
                    "mask_bool": True if mask is None else mask_is_bool(mask), "maskfmt": mask_format(mask)}
            for k in ("normalize", "order", "zero", "constant"):
                if k in kw:
                    tags[k] = kw[k]
            c = {"op": op, "t": t, "marginals": marg, "mkind": mkind, "mask": mask, "tags": tags}
            c.update(kw)
            cases.append(c)

        def tensor(N, kinds=None, **kw):
            return rand_tensor_json(rng, shape_of(N), kinds, maxr=3 if N < 5 else 2, **kw)

        def some_mask(N):
            r = rng.random()
            if r < 0.45:
                return rand_formula(rng, N, rng.randint(1, 3))
            if r < 0.55:
                return ["wmask", rng.choice([rng.randint(0, N), sorted(rng.sample(range(N + 1), 2))])]
            if r < 0.62:
                return rng.choice([["weight"], ["one"]])
            if r < 0.72:
                return ["times", rng.choice([["weight"], ["wmask", rng.randint(1, N)]]), rand_formula(rng, N, 1)]
            if r < 0.92:
                return explicit_mask(rng, N)
            return ["scale", rng.choice([-2, 0.5, 3]), rand_formula(rng, N, 1)]

        # 1. format lattice x basic masks
        for N in (2, 3):
            for kinds in itertools.product(KINDS, repeat=N):
                if quick and N == 3 and rng.random() > 0.4:
                    continue
                t = tensor(N, list(kinds))
                mkind = rng.choice(MKINDS)
                marg = rand_marginals(rng, tshape(t), mkind)
                n = rng.randrange(N)
                mk("sobol", t, marg, mkind, ["var", n], normalize=True, renorm=True)
                mk("sobol", t, marg, mkind, ["only", ["var", n]], normalize=True, renorm=True)
                mk("sobol", t, marg, mkind, some_mask(N), normalize=rng.random() < 0.8, renorm=True)
                mk("corollaries", t, marg, mkind, seed=rng.randrange(10 ** 6))
                mk("mean_dimension", t, marg, mkind, rng.choice([None, rand_formula(rng, N, 1)]))
                mk("dimension_distribution", t, marg, mkind, rng.choice([None, rand_formula(rng, N, 1)]),
                   order=rng.choice([None, rng.randint(1, N)]))
        # 2. every exact subset, every format kind of the explicit mask
        for N in (2, 3, 4):
            t = tensor(N)
            for mkind in ("none", "pos", "zeros"):
                marg = rand_marginals(rng, tshape(t), mkind)
                for b in itertools.product((0, 1), repeat=N):
                    S = [n for n in range(N) if b[n]]; C = [n for n in range(N) if not b[n]]
                    f = ["true"]
                    if S:
                        f = ["all", S]
                    if C:
                        f = ["and", f, ["none", C]] if S else ["none", C]
                    mk("sobol", t, marg, mkind, f, normalize=True, renorm=False)
        for N in (2, 3):
            for kinds in itertools.product(KINDS, repeat=N):
                if quick and N == 3 and rng.random() > 0.3:
                    continue
                t = tensor(N)
                mkind = rng.choice(MKINDS)
                marg = rand_marginals(rng, tshape(t), mkind)
                mk("sobol", t, marg, mkind, explicit_mask(rng, N, list(kinds)),
                   normalize=True, renorm=True)
        # 3. seeded
        for N, cnt in ((2, 80), (3, 160), (4, 160), (5, 60)):
            for _ in range(cnt if quick else cnt * 10):
                t = tensor(N)
                mkind = rng.choice(MKINDS)
                marg = rand_marginals(rng, tshape(t), mkind)
                r = rng.random()
                if r < 0.55:
                    mk("sobol", t, marg, mkind, some_mask(N), normalize=rng.random() < 0.85, renorm=rng.random() < 0.5)
                elif r < 0.7:
                    mk("mean_dimension", t, marg, mkind, rng.choice([None, None, some_mask(N)]))
                elif r < 0.85:
                    mk("dimension_distribution", t, marg, mkind, rng.choice([None, None, rand_formula(rng, N, 2)]),
                       order=rng.choice([None, rng.randint(1, N)]))
                else:
                    mk("corollaries", t, marg, mkind, seed=rng.randrange(10 ** 6))
        # 4. degenerate inputs: zero tensors and constants (total variance 0) - only the no-mutation clause applies
        for _ in range(6 if quick else 30):
            N = rng.randint(2, 3)
            t = tensor(N, zero=True)
            marg = rand_marginals(rng, tshape(t), "pos")
            mk("sobol", t, marg, "pos", ["var", 0], normalize=True, renorm=False, zero=True)
        # 5. tensors constant along one mode (that variable has zero indices), rank-1 additive-free functions
        for _ in range(20 if quick else 120):
            N = rng.randint(2, 4)
            t = tensor(N)
            d = rng.randrange(N)
            m = t["modes"][d]
            if m["U"] is not None:
                m["U"] = [list(m["U"][0]) for _ in m["U"]]
            elif m["kind"] == "tt":
                m["core"] = [[list(a[0]) for _ in a] for a in m["core"]]
            else:
                m["core"] = [list(m["core"][0]) for _ in m["core"]]
            mkind = rng.choice(MKINDS)
            marg = rand_marginals(rng, tshape(t), mkind)
            mk("sobol", t, marg, mkind, ["var", d], normalize=True, renorm=False, constant=True)
            mk("corollaries", t, marg, mkind, seed=rng.randrange(10 ** 6), constant=True)
        return cases

    # ------------------------------------------------------------------ corollary bundle
    @staticmethod
    def bundle(case):
        """the list of (name, op, mask, order) evaluated for a 'corollaries' case (deterministic from the seed)"""
        N = len(case["t"]["modes"])
        r = random.Random(case["seed"])
        items = []
        for n in range(N):
            items.append(("comp%d" % n, "sobol", ["only", ["var", n]], None))
            items.append(("total%d" % n, "sobol", ["var", n], None))
        items.append(("any", "sobol", ["any", None], None))
        A = rand_formula(r, N, 1, cheap=True); G = rand_formula(r, N, 1, cheap=True)
        B = ["and", G, ["not", A]]
        items += [("A", "sobol", A, None), ("B", "sobol", B, None), ("AorB", "sobol", ["or", A, B], None)]
        for b in itertools.product((0, 1), repeat=N):
            if sum(b):
                S = [n for n in range(N) if b[n]]; C = [n for n in range(N) if not b[n]]
                f = ["all", S] if not C else ["and", ["all", S], ["none", C]]
                items.append(("S" + "".join(map(str, b)), "sobol", f, None))
        items.append(("dd", "dimension_distribution", None, None))
        items.append(("md", "mean_dimension", None, None))
        return items

    # ------------------------------------------------------------------ implementation
    def _call(self, t, op, mask, order, marg, normalize=True):
        N = t.dim()
        m = None if mask is None else build_mask(mask, N)
        if op == "sobol":
            return tolist(tn.sobol(t, m, marginals=marg, normalize=normalize))
        if op == "mean_dimension":
            return tolist(tn.mean_dimension(t, mask=m, marginals=marg))
        if op == "dimension_distribution":
            return tolist(tn.dimension_distribution(t, mask=m, order=order, marginals=marg))
        raise ValueError(op)

    def run(self, case):
        try:
            t = to_tn(case["t"])
            marg = torch_marginals(case["marginals"], case["mkind"])
            out = {"ok": True}
            if case["op"] == "corollaries":
                vals = {}
                for name, op, mask, order in self.bundle(case):
                    vals[name] = self._call(t, op, mask, order, marg)
                out["values"] = vals
            else:
                out["value"] = self._call(t, case["op"], case["mask"], case.get("order"), marg,
                                          case.get("normalize", True))
            out["marg_after"] = None if marg is None else [None if m is None else m.tolist() for m in marg]
            out["marg_dtype"] = None if marg is None else [None if m is None else str(m.dtype) for m in marg]
            if case.get("renorm") and marg is not None:
                nm = [None if m is None else m.double() / m.double().sum() for m in marg]
                out["value_norm"] = self._call(t, case["op"], case["mask"], case.get("order"), nm,
                                               case.get("normalize", True))
            return out
        except Exception as e:
            return {"ok": False, "err": type(e).__name__, "msg": str(e)[:200]}

    # ------------------------------------------------------------------ specification
    def _spec(self, var, tot, N, op, mask, order, normalize=True):
        """returns value or None when the quotient is undefined"""
        w = (lambda b: 1.0) if mask is None else mask_fn(mask, N)
        subsets = list(var)
        if op == "sobol":
            num = sum(w(b) * var[b] for b in subsets)
            if not normalize:
                return num
            return num / tot
        den = tot if mask is None else sum(w(b) * var[b] for b in subsets)
        if abs(den) < 1e-12:
            return None
        if op == "mean_dimension":
            return sum(sum(b) * w(b) * var[b] for b in subsets) / den
        if op == "dimension_distribution":
            K = N if order is None else order
            return [sum(w(b) * var[b] for b in subsets if sum(b) == k) / den for k in range(1, K + 1)]
        raise ValueError(op)

    def expected(self, case):
        x = dense_np(case["t"])
        N = x.ndim
        ps = norm_marginals(case["marginals"], x.shape)
        var, tot = variances(x, ps)
        divides = not (case["op"] == "sobol" and not case.get("normalize", True))
        if divides and (constant_on_support(x, ps) or tot < 1e-12):
            return {"ok": True, "degenerate": True}
        if case["op"] == "corollaries":
            vals = {}
            for name, op, mask, order in self.bundle(case):
                vals[name] = self._spec(var, tot, N, op, mask, order)
            return {"ok": True, "values": vals, "marg_after": case["marginals"]}
        v = self._spec(var, tot, N, case["op"], case["mask"], case.get("order"), case.get("normalize", True))
        if v is None:
            return {"ok": True, "degenerate": True}
        return {"ok": True, "value": v, "marg_after": case["marginals"]}

    # ------------------------------------------------------------------ comparison
    def agree(self, case, res, exp):
        if exp.get("degenerate"):
            if res.get("ok"):
                return self._marg_ok(case, res)
            return True, ""
        if not res.get("ok"):
            return False, "implementation raised %s: %s" % (res.get("err"), res.get("msg"))
        ok, msg = self._marg_ok(case, res)
        if not ok:
            return ok, msg
        if case["op"] != "corollaries":
            if not close(res["value"], exp["value"]):
                return False, "%s = %s, brute force gives %s" % (case["op"], res["value"], exp["value"])
            if "value_norm" in res:
                if not close(res["value_norm"], exp["value"]):
                    return False, "with normalised marginals %s, brute force gives %s" % (res["value_norm"], exp["value"])
                if not close(res["value_norm"], res["value"]):
                    return False, "unnormalised marginals give %s, normalised %s" % (res["value"], res["value_norm"])
            if case["op"] == "sobol" and case.get("normalize", True) and case["tags"]["mask_bool"]:
                if not (-1e-9 <= res["value"] <= 1 + 1e-9):
                    return False, "index %s of a 0/1 mask outside [0,1]" % res["value"]
            return True, ""
        v = res["values"]; e = exp["values"]
        for k in e:
            if not close(v[k], e[k]):
                return False, "%s = %s, brute force gives %s" % (k, v[k], e[k])
        N = len(case["t"]["modes"]); tol = 1e-9
        for k, x in v.items():
            if k not in ("dd", "md") and not (-tol <= x <= 1 + tol):
                return False, "index %s = %s outside [0,1]" % (k, x)
        if not (abs(v["any"] - 1) <= tol):
            return False, "index of 'any variable' is %s" % v["any"]
        if not (abs(v["A"] + v["B"] - v["AorB"]) <= tol):
            return False, "not additive over disjoint masks: %s + %s vs %s" % (v["A"], v["B"], v["AorB"])
        for n in range(N):
            if not (v["total%d" % n] >= v["comp%d" % n] - tol):
                return False, "total index %s < variance component %s" % (v["total%d" % n], v["comp%d" % n])
        if not (abs(sum(v["dd"]) - 1) <= tol):
            return False, "dimension distribution sums to %s" % sum(v["dd"])
        md = sum(sum(int(c) for c in k[1:]) * x for k, x in v.items() if k[0] == "S")
        if not (abs(v["md"] - md) <= tol * N):
            return False, "mean dimension %s, size-weighted sum of components %s" % (v["md"], md)
        if not (v["md"] >= 1 - tol):
            return False, "mean dimension %s < 1" % v["md"]
        return True, ""

    def _marg_ok(self, case, res):
        m0 = case["marginals"]
        if m0 is None:
            return (res.get("marg_after") is None, "marginals None changed")
        after = res.get("marg_after")
        for n, m in enumerate(m0):
            if m is None:
                if after[n] is not None:
                    return False, "marginals[%d] was None, is %s after the call" % (n, after[n])
                continue
            if after[n] is None or len(after[n]) != len(m) or any(a != b for a, b in zip(after[n], m)):
                return False, "caller's marginals[%d] modified: %s -> %s" % (n, m, after[n])
            want = "torch.int64" if case["mkind"] == "int" else "torch.float64"
            if res["marg_dtype"][n] != want:
                return False, "caller's marginals[%d] dtype changed" % n
        return True, ""

    def nontrivial(self, case, res):
        if not res.get("ok"):
            return False
        if case["tags"].get("zero"):
            return False
        v = res.get("value", None)
        if v is None:
            v = list(res.get("values", {}).get("dd", [0.0]))
        return bool(np.all(np.isfinite(np.asarray(v, dtype=np.float64))))

    def signature(self, case):
        t = case["tags"]
        return "%s;%s;%s;%s;%s;%s;%s" % (t["op"], t["formats"], tshape(case["t"]), json.dumps(case["mask"])[:300],
                                         t["mkind"], case.get("order"), case.get("normalize"))

    def coq_term(self, case, res):
        """tn.sobol with a scalar-valued mask: the model (Model/Sobol.v) is run on the same tensor, the mask tensor the
        implementation was given (as built by tntorch) and the exactly normalised marginals"""
        from fractions import Fraction
        if case["op"] != "sobol" or not res.get("ok") or case.get("mask") is None:
            return None
        v = res.get("value")
        if not isinstance(v, float) or not np.isfinite(v):
            return None
        if self.expected(case).get("degenerate"):       # zero variance on the support of the marginals: 0/0
            return None
        tj = case["t"]; N = len(tj["modes"])
        try:
            m = build_mask(case["mask"], N)
        except Exception:
            return None
        if m.batch or m.dim() != N or any(int(x) != 2 for x in m.shape) or m.cores[-1].shape[-1] != 1 or m.cores[0].shape[0] != 1 \
                or max(max(c.shape) for c in m.cores) > 8:
            return None
        shape = tshape(tj)
        qx = lambda x: qlit(Fraction(float(x)))
        ws = []
        for n in range(N):
            mg = None if case["marginals"] is None else case["marginals"][n]
            if mg is None:
                w = [Fraction(1, shape[n])] * shape[n]
            else:
                fr = [Fraction(float(x)) for x in mg]
                tot = sum(fr)
                if tot == 0:
                    return None
                w = [x / tot for x in fr]
            ws.append("[" + ";".join(qlit(x) for x in w) + "]%Q")
        # cost guard for the exact rational evaluation: entries that are not short fractions (binary expansions of 1/6,
        # 0.3, sqrt 2 ...) make the denominators grow with every mode; such cases are replayed only on small grids
        nums = []
        for n in range(N):
            if case["marginals"] is not None and case["marginals"][n] is not None:
                fr = [Fraction(float(x)) for x in case["marginals"][n]]
                nums += [x / sum(fr) for x in fr]
        for c in m.cores:
            nums += [Fraction(float(x)) for x in c.reshape(-1).tolist()]
        long_fractions = sum(1 for x in nums if x.denominator > 2 ** 12)
        if long_fractions and int(np.prod(shape)) * (2 if long_fractions <= N else 8) > 400:
            return None
        return "mkCase %s [%s] %s %s %s" % (coq_tensor(tj, qx, "Q"), "; ".join(ws), coq_tensor(from_tn(m), qx, "Q"),
                                           "true" if case.get("normalize", True) else "false", qx(v))
