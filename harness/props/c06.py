"""C06: norms, inner products and statistics of compressed tensors equal their dense definitions.

Every case is {"op", "a", ["b"], plain-JSON arguments, "tags"}.  run() calls tn.<op> (or the Tensor method of the same
name), expected() computes the same quantity with NumPy on the decompressed operands (lib.dense_np).

Conventions fixed by DESIGN.md (C06), not by the property text:
  * dot(t1, t2, k): the k leading modes are contracted; the result's modes are the trailing modes of t1 *reversed*
    followed by the trailing modes of t2 when both operands have trailing modes, and the natural order when only one has.
  * mean/var/moments with marginals m_n weight entry (i_1..i_N) by prod_n m_n[i_n] / sum(m_n); for mean(dim=D,
    marginals=M) the vector M[j] belongs to mode D[j].
  * raw_moment(t,k) = E[t^k], normalized_moment(t,k) = E[(t-E t)^k] / var^(k/2) (population variance).
Degenerate quotients (relative_error of a zero ground truth, r_squared of a constant ground truth, normalised moments
of a constant tensor) are undefined on the dense side as well and are not generated / not judged.
"""
from lib import *

TOL = 1e-9          # everything that is a ring expression of small integers followed by at most sqrt / one division
TOL_APPROX = 1e-6   # moments through hadamard_sum(algorithm='eig'|'svd') with eps=1e-12 (round_tt inside)
TOL_DEFEPS = 1e-4   # raw_moment with its default eps=1e-6


# --------------------------------------------------------------------------- dense specification

def weights(shape, dims, margs):
    """array broadcastable to `shape`: prod_j margs[j][i_dims[j]] / sum(margs[j])"""
    N = len(shape)
    w = np.ones([1] * N)
    for d, m in zip(dims, margs):
        m = np.array(m, dtype=np.float64)
        sh = [1] * N
        sh[d % N] = -1
        w = w * (m / m.sum()).reshape(sh)
    return w


def spec_dot(x, y, k):
    N1, N2 = x.ndim, y.ndim
    if k is None:
        k = min(N1, N2)
    e = np.tensordot(x, y, axes=(list(range(k)), list(range(k))))
    na, nb = N1 - k, N2 - k
    if na > 0 and nb > 0:
        e = e.transpose(list(range(na - 1, -1, -1)) + list(range(na, na + nb)))
    return e


def spec(case):
    """returns (value array, scale for the tolerance or None)"""
    op = case["op"]
    x = dense_np(case["a"])
    y = dense_np(case["b"]) if case.get("b") is not None else None
    N = x.ndim
    if op == "dot":
        return spec_dot(x, y, case.get("k")), None
    if op == "hadamard_sum":
        p = x.copy()
        for tj in case["more"]:
            p = p * dense_np(tj)
        return p.sum(), None
    if op == "normsq":
        return (x * x).sum(), None
    if op == "norm":
        return np.sqrt((x * x).sum()), None
    if op == "dist":
        return np.sqrt(((x - y) ** 2).sum()), None
    if op == "relative_error":
        den = np.sqrt((x * x).sum())
        if den == 0:
            return np.array(np.nan), None
        return np.sqrt(((x - y) ** 2).sum()) / den, None
    if op == "rmse":
        return np.sqrt(((x - y) ** 2).sum() / x.size), None
    if op == "r_squared":
        den = ((x - x.mean()) ** 2).sum()
        if den == 0:
            return np.array(np.nan), None
        return 1 - ((x - y) ** 2).sum() / den, None
    if op in ("sum", "mean"):
        dim = case.get("dim")
        dims = list(range(N)) if dim is None else ([dim] if isinstance(dim, int) else list(dim))
        ax = tuple(d % N for d in dims)
        if op == "sum":
            return x.sum(axis=ax, keepdims=case["keepdim"]), None
        if case.get("marginals") is None:
            return x.mean(axis=ax, keepdims=case["keepdim"]), None
        w = weights(x.shape, dims, case["marginals"])
        return (x * w).sum(axis=ax, keepdims=case["keepdim"]), None
    margs = case.get("marginals")
    w = weights(x.shape, range(N), margs) if margs is not None else np.ones([1] * N) / x.size
    w = np.broadcast_to(w, x.shape)
    mu = (x * w).sum()
    var = ((x - mu) ** 2 * w).sum()
    if op == "var":
        return var, None
    if op == "std":
        return np.sqrt(var), None
    k = case["k"]
    if op == "raw_moment":
        return (x ** k * w).sum(), (np.abs(x) ** k * w).sum()
    if op == "normalized_moment":
        if var <= 1e-12:
            return np.array(np.nan), None
        return ((x - mu) ** k * w).sum() / var ** (k / 2.0), (np.abs(x - mu) ** k * w).sum() / var ** (k / 2.0)
    raise ValueError(op)


# --------------------------------------------------------------------------- helpers for the generator

def absorb(tj):
    """the same tensor with every Tucker factor multiplied into its core (another representation, equal entries)"""
    modes = []
    for m in tj["modes"]:
        if m["U"] is None:
            modes.append({"kind": m["kind"], "core": m["core"], "U": None})
            continue
        c = np.array(m["core"]); U = np.array(m["U"])
        c2 = np.einsum("pjq,ij->piq", c, U) if m["kind"] == "tt" else np.einsum("jr,ij->ir", c, U)
        modes.append({"kind": m["kind"], "core": c2.tolist(), "U": None})
    return {"modes": modes}


def scaled(tj, c):
    """c * tensor: the first core is multiplied by the integer c"""
    t = json.loads(json.dumps(tj))
    t["modes"][0]["core"] = (np.array(t["modes"][0]["core"]) * c).tolist()
    return t


def perturbed(tj, rng, where="any"):
    """the tensor with one core entry (or one Tucker-factor entry) changed by +-1"""
    t = json.loads(json.dumps(tj))
    withU = [m for m in t["modes"] if m["U"] is not None]
    if withU and (where == "U" or (where == "any" and rng.random() < 0.5)):
        x = rng.choice(withU)["U"]
    else:
        x = rng.choice(t["modes"])["core"]
    while isinstance(x[0], list):
        x = rng.choice(x)
    x[rng.randrange(len(x))] += rng.choice([-1, 1])
    return t


def flipped_factor(tj, rng):
    """same cores, one Tucker factor with its rows reversed (falls back to a perturbation when there is no factor)"""
    t = json.loads(json.dumps(tj))
    withU = [m for m in t["modes"] if m["U"] is not None and len(m["U"]) > 1]
    if not withU:
        return perturbed(t, rng)
    m = rng.choice(withU)
    m["U"] = m["U"][::-1]
    return t


def end_cp_rank(tj):
    r = 1
    for m in (tj["modes"][0], tj["modes"][-1]):
        if m["kind"] == "cp":
            r = max(r, len(m["core"][0]))
    return r


def left_bond(tj, n):
    """size of the bond on the left of mode n (n == N: the closing bond)"""
    N = len(tj["modes"])
    m = tj["modes"][min(n, N - 1)]
    c = np.array(m["core"])
    if m["kind"] == "cp":
        return c.shape[1]
    return c.shape[0] if n < N else c.shape[2]


def subsets(N):
    for r in range(1, N + 1):
        for s in itertools.combinations(range(N), r):
            yield list(s)


class Prop:
    ID = "C06"
    LEVEL = "proof"
    COQ_HEADER = "From TN Require Import Harness.H_C06.\nFrom Coq Require Import QArith.\nOpen Scope Z_scope.\n"
    CHECK_FN = "check_any"
    RULE = ("dot: enumerated format lattice ({TT,CP}x{U,no U} per mode) on both operands for N=1,2, seeded for N=3,4; every "
            "(N1,N2,k) with 0<=k<=min(N1,N2) and k=None, dense operand on either side; norm/normsq/dist/relative_error/rmse/"
            "r_squared on seeded pairs incl. b=-a, b=a in another representation, b=a+-1 entry, zero tensors, dense operand on "
            "either side, both argument orders of dist; sum/mean for every non-empty subset of modes of N=1..4 x keepdim x "
            "{sum, uniform mean, marginals} plus dim=None/int/negative/unsorted, shapes rich in size-1 modes; var/std/var with "
            "marginals; raw/normalised moments k=1..4 x {default, exact, svd} x {uniform, marginals}. Non-trivial = the "
            "implementation returned a value and the dense value is finite and the operand is not all-zero; distinct = distinct "
            "(op, formats, shapes, arguments).")
    TRUSTED = ["dense oracle harness/props/c06.py::spec (NumPy on lib.dense_np of the explicit operands)",
               "NumPy float64 arithmetic; integer-valued operands make every ring expression exact"]
    ASSUMPTIONS = ["mode order of dot(t1,t2,k) follows DESIGN.md C06 (trailing modes of t1 reversed, then those of t2, when both "
                   "have trailing modes)",
                   "moments through the default approximate path are compared with tolerance 1e-6 (eps=1e-12) / 1e-4 (eps=1e-6) "
                   "relative to E|t|^k; everything else with 1e-9",
                   "undefined quotients (zero ground truth, constant ground truth, zero variance) are not judged"]
    THEOREMS = ["C06_dot", "C06_dot_partial", "C06_sum", "C06_wsum", "C06_norm", "C06_dist", "C06_dist_sym", "C06_dist_zero_iff",
                "C06_dist_is_norm_of_difference", "C06_relative_error", "C06_rmse", "C06_var", "C06_r_squared", "C06_hadamard_sum", "C06_raw_moment", "C06_normalized_moment"]

    # ------------------------------------------------------------------ generation
    def generate(self, rng, tier):
        quick = tier == "quick"
        cases = []
        S = [1, 2, 3]

        def shp(N, hi=3):
            return [rng.choice([1, 2, 3][:hi]) for _ in range(N)]

        def mk(op, a, b=None, **kw):
            tags = {"op": op, "fa": tsig(a), "N": len(a["modes"]), "cls": kw.pop("cls", "plain"),
                    "api": kw.get("api", "fn")}
            if b is not None:
                tags["fb"] = tsig(b); tags["N2"] = len(b["modes"])
            for key in ("k", "keepdim", "dense", "algorithm", "pair", "sameobj"):
                if key in kw and kw[key] is not None:
                    tags[key] = kw[key]
            if "dim" in kw:
                d = kw["dim"]
                tags["dimkind"] = "none" if d is None else ("int" if isinstance(d, int) else "list")
                if isinstance(d, list) and rng.random() < 0.25:
                    kw["dim_tuple"] = True; tags["dimkind"] = "tuple"     # the same subset given as a tuple
                tags["ndims"] = len(a["modes"]) if d is None else (1 if isinstance(d, int) else len(d))
                tags["negdim"] = bool(d is not None and any(x < 0 for x in ([d] if isinstance(d, int) else d)))
            if op in ("mean", "var", "raw_moment", "normalized_moment"):
                tags["weights"] = "marginals" if kw.get("marginals") is not None else "uniform"
            if op == "dot" and "k" not in tags:
                tags["k"] = "none"
            kw.pop("pair", None)
            c = {"op": op, "a": a, "b": b, "tags": tags}
            c.update(kw)
            cases.append(c)

        def margs_for(shape, dims, frac=False):
            out = []
            for d in dims:
                if frac and rng.random() < 0.3:
                    out.append([rng.choice([0.5, 1.5, 0.25, 2.0]) for _ in range(shape[d])])
                else:
                    out.append([rng.randint(1, 4) for _ in range(shape[d])])
            return out

        # ---- 1. full inner product on the format lattice
        for N in (1, 2):
            for ka in itertools.product(KINDS, repeat=N):
                for kb in itertools.product(KINDS, repeat=N):
                    if quick and N == 2 and rng.random() > 0.4:
                        continue
                    shape = shp(N)
                    a = rand_tensor_json(rng, shape, list(ka), maxr=3)
                    b = rand_tensor_json(rng, shape, list(kb), maxr=3)
                    mk("dot", a, b, k=None, api="method" if rng.random() < 0.15 else "fn")
        for N in (3, 4):
            for _ in range(100 if quick else 700):
                shape = shp(N)
                a = rand_tensor_json(rng, shape, maxr=3 if N == 3 else 2)
                b = rand_tensor_json(rng, shape, maxr=3 if N == 3 else 2)
                mk("dot", a, b, k=rng.choice([None, N]))
        # rank above the mode size, zero operand
        for _ in range(10 if quick else 60):
            N = rng.randint(1, 3); shape = [rng.choice([1, 2]) for _ in range(N)]
            a = rand_tensor_json(rng, shape, maxr=5); b = rand_tensor_json(rng, shape, maxr=5)
            mk("dot", a, b, k=None, cls="bigrank")
            mk("dot", a, rand_tensor_json(rng, shape, zero=True), k=None, cls="zero")

        # ---- 2. partial contraction: every (N1, N2, k)
        for N1 in range(1, 5):
            for N2 in range(1, 5):
                for k in [None] + list(range(0, min(N1, N2) + 1)):
                    if (N1 - (k or 0)) + (N2 - (k or 0)) > 5:
                        continue        # keep the dense result small
                    reps = (4 if quick else 20) if max(N1, N2) <= 3 else (2 if quick else 10)
                    for _ in range(reps):
                        kk = min(N1, N2) if k is None else k
                        s1 = shp(N1)
                        s2 = s1[:kk] + shp(N2 - kk)
                        a = rand_tensor_json(rng, s1, maxr=3 if N1 < 4 else 2)
                        b = rand_tensor_json(rng, s2, maxr=3 if N2 < 4 else 2)
                        mk("dot", a, b, k=k, cls="partial", api="method" if rng.random() < 0.1 else "fn")
        # format of the first trailing core / of the transposed trailing part, enumerated
        for ka in itertools.product(KINDS, repeat=2):
            for kb in (KINDS if not quick else [rng.choice(KINDS)]):
                s1 = [rng.choice([2, 3]), rng.choice(S)]
                a = rand_tensor_json(rng, s1, list(ka), maxr=3)
                b = rand_tensor_json(rng, [s1[0], rng.choice(S)], [rng.choice(KINDS), kb], maxr=3)
                mk("dot", a, b, k=1, cls="partial")
                c = rand_tensor_json(rng, [s1[0]], [kb], maxr=3)
                mk("dot", a, c, k=None, cls="partial")
                mk("dot", c, a, k=1, cls="partial")
        for ka in itertools.product(KINDS, repeat=3):
            if quick and rng.random() > 0.35:
                continue
            s1 = [2, rng.choice(S), rng.choice([2, 3])]
            a = rand_tensor_json(rng, s1, list(ka), maxr=2)
            b = rand_tensor_json(rng, [2, rng.choice([2, 3])], maxr=2)
            mk("dot", a, b, k=1, cls="partial")
            mk("dot", b, a, k=1, cls="partial")

        # one operand ends (with a CP core of rank R) where the other has an interior bond of the same size R: the running
        # interface matrix is square and not symmetric
        want = 12 if quick else 80
        tries = 0
        while want and tries < 20000:
            tries += 1
            n1 = rng.randint(1, 2); n2 = n1 + rng.randint(1, 2)
            s2 = shp(n2)
            kinds1 = [rng.choice(KINDS) for _ in range(n1 - 1)] + [("cp", rng.random() < 0.5)]
            a = rand_tensor_json(rng, s2[:n1], kinds1, maxr=3)
            b = rand_tensor_json(rng, s2, maxr=3)
            R = left_bond(a, n1)
            if R < 2 or left_bond(b, n1) != R:
                continue
            want -= 1
            if rng.random() < 0.5:
                mk("dot", a, b, k=rng.choice([None, n1]), cls="partial-square-interface")
            else:
                mk("dot", b, a, k=rng.choice([None, n1]), cls="partial-square-interface")

        # ---- 3. one dense operand
        for _ in range(60 if quick else 400):
            N = rng.randint(1, 4); shape = shp(N)
            a = rand_tensor_json(rng, shape, maxr=2); b = rand_tensor_json(rng, shape, maxr=2)
            mk("dot", a, b, k=None, dense=rng.choice(["a", "b"]), cls="dense-operand")

        # partial contraction with one dense operand (k given, or operands of different dimension)
        for _ in range(80 if quick else 500):
            N1 = rng.randint(1, 3); N2 = rng.randint(1, 3)
            k = rng.choice([None] + list(range(0, min(N1, N2) + 1)))
            kk = min(N1, N2) if k is None else k
            if (N1 - kk) + (N2 - kk) > 4:
                continue
            s1 = shp(N1); s2 = s1[:kk] + shp(N2 - kk)
            mk("dot", rand_tensor_json(rng, s1, maxr=2), rand_tensor_json(rng, s2, maxr=2), k=k,
               dense=rng.choice(["a", "b"]), cls="dense-operand-partial")

        # hadamard_sum (exact algorithm) of 1..4 tensors of one shape, every format mix
        for _ in range(120 if quick else 800):
            N = rng.randint(1, 3); shape = shp(N)
            M = rng.choice([1, 2, 2, 3, 3, 4])
            ts = [rand_tensor_json(rng, shape, maxr=2) for _ in range(M)]
            mk("hadamard_sum", ts[0], more=ts[1:], cls="hadamard_sum", M=M)
            cases[-1]["tags"]["M"] = M
            cases[-1].pop("M", None)

        # ---- 4. norm, normsq
        for N in (1, 2):
            for ka in itertools.product(KINDS, repeat=N):
                a = rand_tensor_json(rng, shp(N), list(ka), maxr=3)
                mk("norm", a, api="method" if rng.random() < 0.2 else "fn")
                mk("normsq", a, api="method" if rng.random() < 0.2 else "fn")
        for _ in range(30 if quick else 300):
            N = rng.randint(3, 4)
            a = rand_tensor_json(rng, shp(N), maxr=2)
            mk(rng.choice(["norm", "normsq"]), a)
        mk("norm", rand_tensor_json(rng, [2, 3], zero=True), cls="zero")
        mk("normsq", rand_tensor_json(rng, [2, 1, 2], zero=True), cls="zero")

        # ---- 5. distance-like metrics
        def pair(N, how):
            shape = shp(N)
            a = rand_tensor_json(rng, shape, maxr=3 if N < 4 else 2)
            if how == "random":
                b = rand_tensor_json(rng, shape, maxr=3 if N < 4 else 2)
            elif how == "neg":
                b = scaled(a, -1)
            elif how == "neg-other":
                b = scaled(absorb(a), -1)
            elif how == "same":
                b = json.loads(json.dumps(a))
            elif how == "same-other":
                b = absorb(a)
            elif how == "near":
                b = perturbed(absorb(a) if rng.random() < 0.5 else a, rng)
            elif how == "neg-near":
                b = perturbed(scaled(a, -1), rng)
            elif how == "near-U":          # identical cores, a Tucker factor differs
                if not any(m["U"] is not None for m in a["modes"]):
                    kinds = [(rng.choice(["tt", "cp"]), True) for _ in range(N)]
                    a = rand_tensor_json(rng, shape, kinds, maxr=3 if N < 4 else 2)
                b = perturbed(a, rng, "U") if rng.random() < 0.5 else flipped_factor(a, rng)
            elif how == "zero-b":
                b = rand_tensor_json(rng, shape, zero=True)
            elif how == "scaled":
                b = scaled(a, rng.choice([2, -2, 3]))
            return a, b

        HOWS = ["random", "random", "neg", "neg-other", "same", "same-other", "near", "near-U", "neg-near", "zero-b", "scaled"]
        for op in ("dist", "relative_error", "rmse", "r_squared"):
            for how in HOWS:
                for _ in range(10 if quick else 60):
                    N = rng.randint(1, 4)
                    a, b = pair(N, how)
                    x = dense_np(a)
                    if op == "relative_error" and not np.any(x):
                        continue
                    if op == "r_squared" and np.all(x == x.reshape(-1)[0]):
                        continue
                    dense = None if rng.random() < 0.7 else rng.choice(["a", "b"])
                    so = {"sameobj": True} if (how == "same" and dense is None and rng.random() < 0.5) else {}
                    mk(op, a, b, pair=how, dense=dense, cls="metric" if dense is None else "dense-operand", **so)
        # lattice for dist (both operands), N = 1, 2
        for N in (1, 2):
            for ka in itertools.product(KINDS, repeat=N):
                kb = [rng.choice(KINDS) for _ in range(N)]
                shape = shp(N)
                a = rand_tensor_json(rng, shape, list(ka), maxr=3)
                b = rand_tensor_json(rng, shape, kb, maxr=3)
                mk("dist", a, b, pair="random", cls="metric")
                mk("dist", a, scaled(a, -1), pair="neg", cls="metric")
        mk("dist", rand_tensor_json(rng, [2, 2], zero=True), rand_tensor_json(rng, [2, 2]), pair="zero-a", cls="zero")
        mk("rmse", rand_tensor_json(rng, [3], zero=True), rand_tensor_json(rng, [3]), pair="zero-a", cls="zero")

        # ---- 6. sum / mean over every subset of modes
        def sum_shape(N):
            # rich in singleton modes: the clause "removes exactly that mode"
            return [1 if rng.random() < 0.35 else rng.choice([2, 3]) for _ in range(N)]

        for N in range(1, 5):
            for dims in subsets(N):
                for keepdim in (False, True):
                    for _ in range(2 if quick else 8):
                        shape = sum_shape(N)
                        a = rand_tensor_json(rng, shape, maxr=3 if N < 4 else 2)
                        mk("sum", a, dim=dims, keepdim=keepdim, api="method" if rng.random() < 0.1 else "fn")
                        a = rand_tensor_json(rng, sum_shape(N), maxr=3 if N < 4 else 2)
                        mk("mean", a, dim=dims, keepdim=keepdim, marginals=None)
                        shape = sum_shape(N)
                        a = rand_tensor_json(rng, shape, maxr=3 if N < 4 else 2)
                        mk("mean", a, dim=dims, keepdim=keepdim, marginals=margs_for(shape, dims, frac=True))
        # the D2 witness and relatives, on every format of the singleton mode
        for kd in KINDS:
            for dims in ([0], [2], [0, 2], [1]):
                a = rand_tensor_json(rng, [3, 1, 2], [rng.choice(KINDS), kd, rng.choice(KINDS)], maxr=2)
                mk("sum", a, dim=dims, keepdim=False, cls="singleton")
                mk("mean", a, dim=dims, keepdim=False, marginals=None, cls="singleton")
        # format lattice of the summed mode (first / middle / last)
        for kd in KINDS:
            for pos in range(3):
                kinds = [rng.choice(KINDS) for _ in range(3)]; kinds[pos] = kd
                shape = sum_shape(3)
                a = rand_tensor_json(rng, shape, kinds, maxr=3)
                mk("sum", a, dim=[pos], keepdim=rng.random() < 0.5)
                mk("mean", a, dim=[pos], keepdim=rng.random() < 0.5, marginals=margs_for(shape, [pos]))
        # dim=None, int, negative, unsorted
        for _ in range(80 if quick else 500):
            N = rng.randint(1, 4); shape = sum_shape(N)
            a = rand_tensor_json(rng, shape, maxr=2)
            form = rng.choice(["none", "int", "negint", "neglist", "unsorted"])
            if form == "none":
                dim = None
            elif form == "int":
                dim = rng.randrange(N)
            elif form == "negint":
                dim = -rng.randint(1, N)
            elif form == "neglist":
                dim = sorted(set(-rng.randint(1, N) for _ in range(rng.randint(1, N))))
            else:
                dim = list(range(N)); rng.shuffle(dim); dim = dim[:rng.randint(1, N)]
            op = rng.choice(["sum", "mean", "mean-marg"])
            kd = rng.random() < 0.5
            if op == "mean-marg":
                if isinstance(dim, int):
                    mk("mean", a, dim=dim, keepdim=kd, marginals=margs_for(shape, [dim]), cls="mean-marginals-int-dim")
                else:
                    dl = list(range(N)) if dim is None else dim
                    mk("mean", a, dim=dim, keepdim=kd, marginals=margs_for(shape, dl))
            else:
                mk(op, a, dim=dim, keepdim=kd, **({"marginals": None} if op == "mean" else {}))
        # marginals given in the order of an unsorted dim list (distinct mode sizes make a mix-up visible)
        for _ in range(20 if quick else 120):
            N = rng.randint(2, 4)
            shape = rng.sample([2, 3, 4, 1], N) if rng.random() < 0.7 else sum_shape(N)
            a = rand_tensor_json(rng, shape, maxr=2)
            dim = list(range(N)); rng.shuffle(dim); dim = dim[:rng.randint(2, N)]
            if dim == sorted(dim):
                dim = dim[::-1]
            mk("mean", a, dim=dim, keepdim=rng.random() < 0.5, marginals=margs_for(shape, dim), cls="unsorted-dims")
            a = rand_tensor_json(rng, shape, maxr=2)
            mk("sum", a, dim=dim, keepdim=rng.random() < 0.5, cls="unsorted-dims")
        for _ in range(6 if quick else 40):
            N = rng.randint(1, 3)
            a = rand_tensor_json(rng, sum_shape(N), zero=True)
            mk("sum", a, dim=None, keepdim=rng.random() < 0.5, cls="zero")

        # ---- 7. variance, standard deviation
        for N in (1, 2):
            for ka in itertools.product(KINDS, repeat=N):
                shape = shp(N)
                a = rand_tensor_json(rng, shape, list(ka), maxr=3)
                mk("var", a, marginals=None, api="method" if rng.random() < 0.2 else "fn")
                mk("std", a, api="method" if rng.random() < 0.2 else "fn")
                mk("var", a, marginals=margs_for(shape, range(N), frac=True))
        for _ in range(80 if quick else 500):
            N = rng.randint(3, 4); shape = shp(N)
            a = rand_tensor_json(rng, shape, maxr=2)
            r = rng.random()
            if r < 0.35:
                mk("var", a, marginals=None)
            elif r < 0.6:
                mk("std", a)
            else:
                mk("var", a, marginals=margs_for(shape, range(N), frac=True))

        # ---- 8. moments
        def moment_case(op, a, shape, k, alg, marg):
            N = len(shape)
            kw = {"k": k, "marginals": margs_for(shape, range(N)) if marg else None}
            if alg == "default":
                kw["algorithm"] = "default"; kw["eps"] = None
            else:
                kw["algorithm"] = alg; kw["eps"] = None if alg == "exact" else 1e-12
            cls = "moment"
            if N == 1 and alg != "exact":
                cls = "moment-approx-1d"                       # D20
            elif N == 1 and end_cp_rank(a) > 1:
                cls = "moment-exact-1d-cp-rank"                # exact path on a 1-D CP vector of rank > 1
            elif marg and op == "raw_moment" and end_cp_rank(a) > 1:
                cls = "raw-moment-marginals-cp-end"            # first or last core CP with rank > 1
            if op == "normalized_moment":
                x = dense_np(a)
                if np.all(x == x.reshape(-1)[0]):
                    return
            mk(op, a, cls=cls, **kw)

        for op in ("raw_moment", "normalized_moment"):
            for k in (1, 2, 3, 4):
                for alg in ("default", "exact", "svd", "eig"):
                    for marg in (False, True):
                        for _ in range(4 if quick else 20):
                            N = rng.randint(1, 4) if rng.random() < 0.8 else 1
                            shape = shp(N)
                            a = rand_tensor_json(rng, shape, maxr=2)
                            moment_case(op, a, shape, k, alg, marg)
        for ka in itertools.product(KINDS, repeat=2):
            shape = [rng.choice([2, 3]), rng.choice([2, 3])]
            a = rand_tensor_json(rng, shape, list(ka), maxr=2)
            moment_case("raw_moment", a, shape, rng.choice([2, 3]), rng.choice(["default", "exact"]), False)
            moment_case("normalized_moment", a, shape, rng.choice([2, 3, 4]), rng.choice(["default", "exact"]), rng.random() < 0.5)
        return cases

    # ------------------------------------------------------------------ implementation side
    @staticmethod
    def _out(r):
        if isinstance(r, tn.Tensor):
            d = r.torch(); kind = "tn"
        elif torch.is_tensor(r):
            d = r; kind = "torch"
        else:
            d = torch.tensor(float(r)); kind = "py"
        return {"shape": list(d.shape), "dense": d.detach().double().reshape(-1).tolist(), "kind": kind}

    def _run(self, case):
        op = case["op"]
        A = to_tn(case["a"])
        B = to_tn(case["b"]) if case.get("b") is not None else None
        meth = case.get("api") == "method"
        if case.get("sameobj"):
            B = A                      # the very same object as both operands
        dense = case.get("dense")
        if dense == "a":
            A = A.torch()
        if dense == "b":
            B = B.torch()
        M = case.get("marginals")
        if M is not None:
            M = [torch.tensor(m, dtype=torch.float64) for m in M]
        if op == "dot":
            kw = {} if case.get("k") is None else {"k": case["k"]}
            return self._out(A.dot(B, **kw) if meth else tn.dot(A, B, **kw))
        if op == "hadamard_sum":
            return self._out(tn.hadamard_sum([A] + [to_tn(tj) for tj in case["more"]]))
        if op in ("norm", "normsq", "std"):
            return self._out(getattr(A, op)() if meth else getattr(tn, op)(A))
        if op == "dist":
            out = self._out(tn.dist(A, B))
            out["rev"] = self._out(tn.dist(B, A))["dense"]
            return out
        if op in ("relative_error", "rmse", "r_squared"):
            return self._out(getattr(tn, op)(A, B))
        if op == "sum":
            kw = {"keepdim": case["keepdim"]}
            if case.get("dim") is not None:
                kw["dim"] = tuple(case["dim"]) if case.get("dim_tuple") else case["dim"]
            return self._out(A.sum(**kw) if meth else tn.sum(A, **kw))
        if op == "mean":
            kw = {"keepdim": case["keepdim"]}
            if case.get("dim") is not None:
                kw["dim"] = tuple(case["dim"]) if case.get("dim_tuple") else case["dim"]
            if M is not None:
                kw["marginals"] = M
            return self._out(A.mean(**kw) if meth else tn.mean(A, **kw))
        if op == "var":
            kw = {} if M is None else {"marginals": M}
            return self._out(A.var(**kw) if meth else tn.var(A, **kw))
        if op in ("raw_moment", "normalized_moment"):
            kw = {}
            if M is not None:
                kw["marginals"] = M
            if case.get("algorithm") not in (None, "default"):
                kw["algorithm"] = case["algorithm"]
            if case.get("eps") is not None:
                kw["eps"] = case["eps"]
            return self._out(getattr(tn, op)(A, case["k"], **kw))
        raise ValueError(op)

    def run(self, case):
        try:
            out = self._run(case)
            out["ok"] = True
            return out
        except Exception as e:
            return {"ok": False, "err": type(e).__name__, "msg": str(e)[:200]}

    # ------------------------------------------------------------------ specification side
    def expected(self, case):
        v, scale = spec(case)
        v = np.asarray(v, dtype=np.float64)
        out = {"ok": True, "shape": list(v.shape), "dense": v.reshape(-1).tolist()}
        if scale is not None:
            out["scale"] = float(scale)
        return out

    def _tol(self, case):
        if case["op"] in ("raw_moment", "normalized_moment") and case.get("algorithm") != "exact":
            if case.get("eps") is None and case["op"] == "raw_moment":
                return TOL_DEFEPS
            return TOL_APPROX
        return TOL

    def agree(self, case, res, exp):
        b = np.array(exp["dense"], dtype=np.float64)
        if b.size and not np.all(np.isfinite(b)):
            return True, "dense quantity undefined (not judged)"
        if not res.get("ok"):
            return False, "implementation raised %s: %s" % (res.get("err"), res.get("msg"))
        if list(res["shape"]) != list(exp["shape"]):
            return False, "result has shape %s, the dense definition gives %s" % (res["shape"], exp["shape"])
        a = np.array(res["dense"], dtype=np.float64)
        tol = self._tol(case)
        scale = max(1.0, exp.get("scale", 0.0), float(np.max(np.abs(b))) if b.size else 0.0)
        if a.size:
            if not np.all(np.isfinite(a)):
                return False, "non-finite result %s, expected %s" % (a.tolist()[:4], b.tolist()[:4])
            err = float(np.max(np.abs(a - b)))
            if not (err <= tol * scale):          # NaN-safe
                return False, "value differs from the dense definition by %g (got %s, expected %s)" % (
                    err, a.tolist()[:4], b.tolist()[:4])
        if case["op"] == "dist":
            r = np.array(res["rev"], dtype=np.float64)
            if r.shape != b.shape or not np.all(np.isfinite(r)) or not (float(np.max(np.abs(r - b))) <= tol * scale):
                return False, "dist is not symmetric: dist(b,a)=%s, dense %s" % (r.tolist(), b.tolist())
        return True, ""

    def nontrivial(self, case, res):
        if not res.get("ok"):
            return False
        if not all(math.isfinite(x) for x in res["dense"]):
            return False
        return any(abs(x) > 0 for x in flat(dense_np(case["a"]))) if case["tags"]["cls"] != "zero" else False

    def signature(self, case):
        t = case["tags"]
        return "|".join(str(x) for x in (
            t["op"], t["fa"], t.get("fb"), tshape(case["a"]), tshape(case["b"]) if case.get("b") else None,
            case.get("k"), case.get("dim"), case.get("keepdim"), t.get("weights"), t.get("dense"), t.get("algorithm"),
            t.get("pair"), t["api"]))

    def coq_term(self, case, res):
        """model (Coq, vm_compute) versus implementation: dot (full / partial, both operands compressed), sum, mean"""
        if not res.get("ok") or case.get("dense") or case.get("sameobj"):
            return None
        op = case["op"]
        a = case["a"]
        N = len(a["modes"])
        if op == "dot" and case.get("b") is not None:
            b = case["b"]
            k = case.get("k")
            if k is None:
                k = min(N, len(b["modes"]))
            if k == 0:
                return None
            dense = canon_dense(res["dense"])
            if dense is None:
                dense = [10 ** 9]
            return "cZ (mkZ (zDot %s %s %d) %s %s)" % (coq_tensor(a), coq_tensor(b), k, coq_natlist(res["shape"]), coq_list(dense))
        if op == "hadamard_sum":
            dense = canon_dense(res["dense"])
            if dense is None:
                dense = [10 ** 9]
            return "cZ (mkZ (zHsum [%s]) [] %s)" % ("; ".join(coq_tensor(t) for t in [a] + case["more"]), coq_list(dense))
        if op == "sum":
            dim = case.get("dim")
            dims = list(range(N)) if dim is None else ([dim] if isinstance(dim, int) else list(dim))
            dims = [d % N for d in dims]
            dense = canon_dense(res["dense"])
            if dense is None:
                dense = [10 ** 9]
            return "cZ (mkZ (zSum %s %s) %s %s)" % (coq_tensor(a), coq_natlist(dims), coq_natlist(res["shape"]), coq_list(dense))
        if op == "mean":
            from fractions import Fraction
            dim = case.get("dim")
            dims = list(range(N)) if dim is None else ([dim] if isinstance(dim, int) else list(dim))
            dims = [d % N for d in dims]
            shape = tshape(a)
            M = case.get("marginals")
            dw = []
            for j, d in enumerate(dims):
                if M is None:
                    w = [Fraction(1, shape[d])] * shape[d]
                else:
                    m = [Fraction(x).limit_denominator(10 ** 6) for x in M[j]]
                    tot = sum(m)
                    if tot == 0:
                        return None
                    w = [x / tot for x in m]
                dw.append("(%d%%nat, %s)" % (d, coq_list(w, qlit, "Q")))
            lit = lambda x: qlit(Fraction(x))
            qd = lambda x: "(%d#%d)" % (round(x * 2 ** 40), 2 ** 40)
            return "cQ (mkQ (qWsum %s [%s]) %s %s)" % (coq_tensor(a, lit, "Q"), "; ".join(dw), coq_natlist(res["shape"]),
                                                      coq_list(res["dense"], qd, "Q"))
        return None
