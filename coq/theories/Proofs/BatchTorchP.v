(* C18, part 3: Tensor.torch() on a batch tensor.  The walk of the code (factor of shape (B, rows, r), one einsum and one
   reshape(B, -1, r) per core, final sum / [..., 0]) returns at (b, idx) the entry idx of element b.
   Invariant: after the cores of a prefix, row (flat position of the prefix of idx) of the factor of element b is the row vector
   1^T M_1(i_1) .. M_k(i_k) ([prop] of Sem/Moves.v). *)
From TN Require Export Proofs.BatchP Sem.Fast.

Section BatchTorchP.
Variable K : Ops.
Hypothesis Kth : laws K.
Add Ring Kring : Kth.
Local Open Scope K_scope.

Definition bsizes (cs : list (bmode K)) : list nat := map (fun m => bc_sz (bcore m)) cs.
Definition brrs (cs : list (bmode K)) : list nat := map (fun m => bc_rr (bcore m)) cs.

Lemma bchain_chain bb : forall (l : list (bmode K)) r, bchain r l = true -> chain r (sem (slice_modes l bb)) = true.
Proof.
  induction l as [|m l IH]; intros r Hc; [reflexivity|].
  cbn [bchain] in Hc. apply andb_true_iff in Hc. destruct Hc as [Ha Hb].
  cbn [slice_modes map sem chain]. apply andb_true_iff. split.
  - unfold sem_mode, slice_mode. cbn [fac core].
    destruct (bfac m) as [[[di s] U]|]; cbn [slice_fac rl]; destruct (bcore m); exact Ha.
  - replace (rr (sem_mode (slice_mode bb m))) with (bc_rr (bcore m)); [apply IH; exact Hb|].
    unfold sem_mode, slice_mode. cbn [fac core].
    destruct (bfac m) as [[[di s] U]|]; cbn [slice_fac rr]; destruct (bcore m); reflexivity.
Qed.

Lemma sem_slice_nofac (m : bmode K) bb : bfac m = None ->
  sem_mode (slice_mode bb m) =
  mkScore (bc_rl (bcore m)) (bc_rr (bcore m)) (bc_sz (bcore m)) (c_sl (slice_core (bcore m) bb)).
Proof. intros H. unfold sem_mode, slice_mode. cbn [fac core]. rewrite H. cbn [slice_fac]. destruct (bcore m); reflexivity. Qed.

Lemma diag_vec r (u : nat -> K) (g : nat -> K) q : (q < r)%nat ->
  sumn r (fun p => u p * (if Nat.eqb p q then g p else 0)) = u q * g q.
Proof.
  intros Hq. rewrite <- (sumn_delta_r Kth r q (fun p => u p * g p) Hq).
  apply sumn_ext. intros p _. unfold delta. destruct (Nat.eqb p q); ring.
Qed.

(* one step of the walk, not the last core *)
Lemma step_tab (c : bcdata K) (f : bfactor K) bb rowp i q : f_r f = bc_rl c -> (i < bc_sz c)%nat -> (q < bc_rr c)%nat ->
  f_tab (torch_step false f c) bb (rowp * bc_sz c + i)%nat q =
  vecmat (bc_rl c) (f_tab f bb rowp) (c_sl (slice_core c bb) i) q.
Proof.
  intros Er Hi Hq. destruct c as [a s b g|s r g]; cbn [bc_sz bc_rl bc_rr] in *; cbn [torch_step f_tab slice_core c_sl].
  - destruct (divmod_small s rowp i Hi) as [E1 E2]. rewrite E1, E2, Er. reflexivity.
  - destruct (divmod_small s rowp i Hi) as [E1 E2]. rewrite E1, E2. unfold vecmat.
    rewrite (diag_vec r (f_tab f bb rowp) (fun p => g bb i p) q Hq). reflexivity.
Qed.
Lemma step_r (c : bcdata K) (f : bfactor K) : f_r f = bc_rl c -> f_r (torch_step false f c) = bc_rr c.
Proof. intros Er. destruct c; cbn [torch_step f_r bc_rr bc_rl] in *; auto. Qed.

(* the last core, followed by factor.sum(-1) / factor[..., 0] *)
Lemma step_fin (c : bcdata K) (f : bfactor K) bb rowp i : f_r f = bc_rl c -> (i < bc_sz c)%nat -> (0 < bc_rr c)%nat ->
  torch_fin (torch_step true f c) bb (rowp * bc_sz c + i)%nat =
  sumn (bc_rr c) (vecmat (bc_rl c) (f_tab f bb rowp) (c_sl (slice_core c bb) i)).
Proof.
  intros Er Hi Hb. destruct c as [a s b g|s r g]; cbn [bc_sz bc_rl bc_rr] in *; unfold torch_fin;
    cbn [torch_step f_tab f_r slice_core c_sl]; destruct (divmod_small s rowp i Hi) as [E1 E2].
  - destruct (Nat.ltb_spec 1 b).
    + apply sumn_ext. intros q Hq. rewrite E1, E2, Er. reflexivity.
    + assert (b = 1)%nat by lia. subst b. rewrite sumn_1 by assumption. rewrite E1, E2, Er. reflexivity.
  - change (1 <? 1)%nat with false. cbv iota. rewrite E1, E2, Er.
    apply sumn_ext. intros q Hq. unfold vecmat. symmetry. apply (diag_vec r (f_tab f bb rowp) (fun p => g bb i p) q Hq).
Qed.

Lemma walk_fin bb (cs : list (bmode K)) : forall (f : bfactor K) r rowp idx, cs <> [] ->
  (forall m, In m cs -> bfac m = None) -> bchain r cs = true -> f_r f = r ->
  in_range (bsizes cs) idx = true -> (0 < last (brrs cs) O)%nat ->
  torch_fin (torch_walk f cs) bb (flat_idx (bsizes cs) idx rowp) =
  sumn (last_rr r (sem (slice_modes cs bb))) (prop (f_tab f bb rowp) (sem (slice_modes cs bb)) idx).
Proof.
  induction cs as [|m cs IH]; intros f r rowp idx Hne Hf Hc Er Hr Hl; [congruence|].
  assert (Fm: bfac m = None) by (apply Hf; left; reflexivity).
  cbn [bchain] in Hc. apply andb_true_iff in Hc. destruct Hc as [Ea Hc]. apply Nat.eqb_eq in Ea.
  destruct idx as [|i idx]; [discriminate|]. cbn [bsizes map in_range] in Hr. apply andb_true_iff in Hr.
  destruct Hr as [Hi Hr]. apply Nat.ltb_lt in Hi.
  change (sem (slice_modes (m :: cs) bb)) with (sem_mode (slice_mode bb m) :: sem (slice_modes cs bb)).
  rewrite (sem_slice_nofac m bb Fm).
  destruct cs as [|m' cs'].
  - destruct idx; [|discriminate]. cbn [torch_walk is_nil bsizes map flat_idx last_rr fold_left rr prop rl sl slice_modes sem].
    cbn [brrs map last] in Hl. rewrite <- Ea in *. apply step_fin; auto.
  - change (torch_walk f (m :: m' :: cs')) with (torch_walk (torch_step false f (bcore m)) (m' :: cs')).
    change (flat_idx (bsizes (m :: m' :: cs')) (i :: idx) rowp) with (flat_idx (bsizes (m' :: cs')) idx (rowp * bc_sz (bcore m) + i)%nat).
    change (last (brrs (m :: m' :: cs')) O) with (last (brrs (m' :: cs')) O) in Hl.
    rewrite (IH (torch_step false f (bcore m)) (bc_rr (bcore m)) (rowp * bc_sz (bcore m) + i)%nat idx); auto; try discriminate.
    2:{ intros m0 Hm0. apply Hf. right. exact Hm0. }
    2:{ apply step_r. congruence. }
    set (X := mkScore (bc_rl (bcore m)) (bc_rr (bcore m)) (bc_sz (bcore m)) (c_sl (slice_core (bcore m) bb))).
    change (last_rr r (X :: sem (slice_modes (m' :: cs') bb))) with (last_rr (bc_rr (bcore m)) (sem (slice_modes (m' :: cs') bb))).
    cbn [prop]. apply sumn_ext. intros q Hq.
    apply (prop_ext_bounded K (sem (slice_modes (m' :: cs') bb)) (bc_rr (bcore m))); auto.
    + apply bchain_chain. exact Hc.
    + unfold sem, slice_modes. rewrite !map_length. apply in_range_length in Hr. unfold bsizes in Hr. rewrite map_length in Hr. exact Hr.
    + intros p Hp. subst X. cbn [rl sl]. apply step_tab; auto. congruence.
Qed.

(* decompress_tucker_factors keeps sizes and ranks *)
Lemma babsorb_dims (m : bmode K) :
  bc_sz (babsorb m) = bm_size m /\ bc_rl (babsorb m) = bc_rl (bcore m) /\ bc_rr (babsorb m) = bc_rr (bcore m).
Proof. unfold babsorb, bm_size. destruct (bfac m) as [[[di s] U]|]; destruct (bcore m); auto. Qed.

Lemma bchain_decompress : forall (l : list (bmode K)) r, bchain r l = true -> bchain r (map bdecompress_mode l) = true.
Proof.
  induction l as [|m l IH]; intros r H; [reflexivity|]. cbn [bchain] in H. apply andb_true_iff in H. destruct H as [Ha Hb].
  cbn [map bchain bdecompress_mode bcore]. destruct (babsorb_dims m) as (_ & E1 & E2). rewrite E1, E2, Ha. cbn [andb]. apply IH. exact Hb.
Qed.

Theorem torch_b_sound (t : btensor K) bb idx : wf_btensor t = true -> (0 < brank_last t)%nat ->
  in_range (bshape_of (bmodes t)) idx = true -> torch_val t bb idx = den (slice_b t bb) idx.
Proof.
  intros Wt Hl Hr. unfold torch_val, torch_b. cbn [decompress_b bmodes].
  assert (Wt' := Wt). unfold wf_btensor in Wt'. destruct (bmodes t) as [|m0 ms] eqn:Em; [discriminate|].
  apply andb_true_iff in Wt'. destruct Wt' as [_ Hc].
  set (cs := map bdecompress_mode (m0 :: ms)).
  assert (Es: bsizes cs = bshape_of (m0 :: ms)).
  { unfold bsizes, bshape_of, cs. rewrite map_map. apply map_ext. intros m. cbn [bdecompress_mode bcore]. apply babsorb_dims. }
  assert (Er: brrs cs = map (fun m => bc_rr (bcore m)) (m0 :: ms)).
  { unfold brrs, cs. rewrite map_map. apply map_ext. intros m. cbn [bdecompress_mode bcore]. apply babsorb_dims. }
  rewrite <- Es.
  rewrite (walk_fin bb cs (mkBF 1 (bc_rl (bcore m0)) (fun _ _ _ => 1)) (bc_rl (bcore m0)) O idx).
  - (* the row vector 1^T M_1 .. M_N summed over the last bond is the entry *)
    assert (Ecs: slice_modes cs bb = decompress (slice_b t bb)).
    { rewrite <- slice_decompress. unfold slice_b, decompress_b. rewrite Em. reflexivity. }
    rewrite Ecs. cbn [f_tab].
    set (xs := sem (decompress (slice_b t bb))).
    assert (Wd: wf_tensor (decompress (slice_b t bb)) = true) by (apply decompress_wf; auto; apply wf_slice; exact Wt).
    assert (Hne: xs <> []).
    { subst xs. unfold slice_b. rewrite Em. discriminate. }
    assert (Hch: chain (bc_rl (bcore m0)) xs = true).
    { subst xs. rewrite <- Ecs. apply bchain_chain. apply bchain_decompress. exact Hc. }
    assert (Hlen: length idx = length xs).
    { subst xs. unfold sem, decompress, slice_b, slice_modes. rewrite !map_length. rewrite Em.
      apply in_range_length in Hr. unfold bshape_of in Hr. rewrite map_length in Hr. exact Hr. }
    rewrite (sumn_ext _ _ (fun q => prop (fun _ => 1) xs idx q * ones q)) by (intros; unfold ones; ring).
    rewrite (prop_bil K Kth xs (bc_rl (bcore m0)) idx (fun _ => 1) ones Hne Hch Hlen).
    change (fun _ : nat => r1 K) with (@ones K). rewrite (bil_ones_eval K Kth xs idx Hne).
    subst xs. change (eval (sem (decompress (slice_b t bb))) idx) with (den (decompress (slice_b t bb)) idx).
    apply decompress_sound; auto.
    + apply wf_slice. exact Wt.
    + unfold slice_b. rewrite shape_slice. rewrite Em. exact Hr.
  - discriminate.
  - intros m Hm. subst cs. apply in_map_iff in Hm. destruct Hm as (m' & <- & _). reflexivity.
  - subst cs. apply bchain_decompress. exact Hc.
  - reflexivity.
  - rewrite Es. exact Hr.
  - rewrite Er. unfold brank_last in Hl. rewrite Em in Hl. exact Hl.
Qed.

End BatchTorchP.

(* non-vacuity: the instance of BatchP.Examples has a CP last core of rank 2 *)
Example ex_torch_hyp : (0 < brank_last ex_t)%nat /\ (0 < brank_last ex_u)%nat.
Proof. split; vm_compute; lia. Qed.
Example ex_torch_val : torch_val ex_t 0 [2; 1]%nat = 36%Z /\ torch_val ex_t 1 [2; 1]%nat = 1%Z.
Proof. vm_compute. split; reflexivity. Qed.
