(* C18, part 2: the concrete kernels refine the network-level models of Model/Arith.v (block-diagonal stacking
   [zipbd], Kronecker product [zipkr], scaling), hence every batch element of a batch result decompresses to the
   sum / product / scalar combination of that element of the operands; and Tensor.torch() on a batch tensor
   returns, at (b, idx), the entry idx of element b. *)
From TN Require Export Proofs.BatchSliceP Proofs.ConvertP Proofs.ArithP.

Section BatchP.
Variable K : Ops.
Hypothesis Kth : laws K.
Add Ring Kring : Kth.
Local Open Scope K_scope.
Notation net := (list (score K)).

(* ---------- congruence kit ---------- *)
Lemma score_eq_in_sym (a b : score K) : score_eq_in a b -> score_eq_in b a.
Proof. intros (E1 & E2 & E3 & E4). repeat split; auto. intros i p q Hi Hp Hq. symmetry. apply E4; congruence. Qed.

Lemma score_eq_in_trans (a b c : score K) : score_eq_in a b -> score_eq_in b c -> score_eq_in a c.
Proof. intros (E1 & E2 & E3 & E4) (F1 & F2 & F3 & F4). repeat split; try congruence.
  intros i p q Hi Hp Hq. rewrite E4 by assumption. apply F4; congruence. Qed.

Lemma bd_cong (a a' b b' : score K) : score_eq_in a a' -> score_eq_in b b' -> dm a = dm b ->
  score_eq_in (bd a b) (bd a' b').
Proof.
  intros (E1 & E2 & E3 & E4) (F1 & F2 & F3 & F4) Ed. repeat split; cbn [rl rr dm bd]; try congruence.
  intros i p q Hi Hp Hq. cbn [sl bd]. rewrite <- E1, <- E2.
  destruct (Nat.ltb_spec p (rl a)), (Nat.ltb_spec q (rr a)); try reflexivity.
  - apply E4; assumption.
  - apply F4; lia.
Qed.

Lemma kr_cong (a a' b b' : score K) : score_eq_in a a' -> score_eq_in b b' -> dm a = dm b ->
  score_eq_in (kr a b) (kr a' b').
Proof.
  intros (E1 & E2 & E3 & E4) (F1 & F2 & F3 & F4) Ed. repeat split; cbn [rl rr dm kr]; try congruence.
  intros i p q Hi Hp Hq. cbn [sl kr]. rewrite <- F1, <- F2.
  assert (rl b <> 0)%nat by (intros Z; rewrite Z in Hp; lia).
  assert (rr b <> 0)%nat by (intros Z; rewrite Z in Hq; lia).
  assert (P1: (p / rl b < rl a)%nat) by (apply Nat.div_lt_upper_bound; auto; lia).
  assert (P2: (q / rr b < rr a)%nat) by (apply Nat.div_lt_upper_bound; auto; lia).
  assert (P3: (p mod rl b < rl b)%nat) by (apply Nat.mod_upper_bound; auto).
  assert (P4: (q mod rr b < rr b)%nat) by (apply Nat.mod_upper_bound; auto).
  rewrite E4 by assumption. rewrite F4 by (try assumption; lia). reflexivity.
Qed.

(* ---------- shapes of the semantic cores ---------- *)
Lemma sem_mode_dims (m : mode K) :
  rl (sem_mode m) = c_rl (core m) /\ rr (sem_mode m) = c_rr (core m) /\ dm (sem_mode m) = m_size m.
Proof. unfold sem_mode, m_size. destruct (fac m) as [[[di s] U]|]; auto. Qed.

(* a TT-core mode, with the factor's column count equal to the core's spatial size *)
Definition tt_sl (g : tab3 K) (f : facT K) : nat -> nat -> nat -> K :=
  match f with
  | None => fun i p q => g p i q
  | Some (_, s, U) => fun i p q => sumn s (fun j => U i j * g p j q)
  end.
Lemma sem_mode_tt a s b g (f : facT K) :
  sem_mode (mkMode (CTT a s b g) f) = mkScore a b (m_size (mkMode (CTT a s b g) f)) (tt_sl g f).
Proof. unfold sem_mode, m_size, tt_sl. cbn [core fac]. destruct f as [[[di s'] U]|]; reflexivity. Qed.

(* ---------- addition, one mode ---------- *)
Definition add_raw (c1 c2 : cdata K) (f1 f2 : facT K) : mode K :=
  if (match f1 with Some _ => true | None => false end) && (match f2 with Some _ => true | None => false end)
  then mkMode (block3 c1 c2) (catU f1 f2)
  else mkMode (block2 (absorb (mkMode c1 f1)) (absorb (mkMode c2 f2))) None.

Lemma sumn_if_zero n (c : bool) (f : nat -> K) : sumn n (fun j => f j * (if c then 0 else 0)) = 0.
Proof. apply sumn_zero_ext; auto. intros; destruct c; ring. Qed.

Lemma raw_tt_eq a1 s1 b1 g1 (f1 : facT K) a2 s2 b2 g2 (f2 : facT K) :
  let m1 := mkMode (CTT a1 s1 b1 g1) f1 in let m2 := mkMode (CTT a2 s2 b2 g2) f2 in
  wf_mode m1 = true -> wf_mode m2 = true -> m_size m1 = m_size m2 ->
  score_eq_in (bd (sem_mode m1) (sem_mode m2)) (sem_mode (add_raw (core m1) (core m2) f1 f2)).
Proof.
  intros m1 m2 W1 W2 Es. subst m1 m2. unfold wf_mode, m_size in *. cbn [core fac c_sz] in *.
  destruct f1 as [[[d1 t1] U1]|], f2 as [[[d2 t2] U2]|]; unfold add_raw; cbn [andb].
  - apply Nat.eqb_eq in W1, W2. subst t1 t2 d2.
    unfold sem_mode. cbn [core fac block3 catU c_rl c_rr c_sz c_sl].
    repeat split; cbn [rl rr dm bd]; auto.
    intros i p q Hi Hp Hq. cbn [sl bd rl rr].
    transitivity (sumn s1 (fun j => U1 i j * (if (q <? b1)%nat then (if (p <? a1)%nat then g1 p j q else 0) else 0)) +
                  sumn s2 (fun j => U2 i j * (if (q <? b1)%nat then 0 else (if (p <? a1)%nat then 0 else g2 (p - a1)%nat j (q - b1)%nat)))).
    2:{ symmetry. rewrite sumn_app by assumption. f_equal; apply sumn_ext; intros j Hj; unfold cat1, catl, cat0, zeros3.
        - destruct (Nat.ltb_spec j s1); [|lia]. reflexivity.
        - destruct (Nat.ltb_spec (s1 + j) s1); [lia|]. replace (s1 + j - s1)%nat with j by lia. reflexivity. }
    destruct (Nat.ltb_spec p a1), (Nat.ltb_spec q b1); cbv beta iota.
    + rewrite (sumn_zero_ext Kth s2) by (intros; ring). ring.
    + rewrite (sumn_zero_ext Kth s1) by (intros; ring). rewrite (sumn_zero_ext Kth s2) by (intros; ring). ring.
    + rewrite (sumn_zero_ext Kth s1) by (intros; ring). rewrite (sumn_zero_ext Kth s2) by (intros; ring). ring.
    + rewrite (sumn_zero_ext Kth s1) by (intros; ring). ring.
  - apply Nat.eqb_eq in W1. subst t1.
    unfold sem_mode, absorb. cbn [core fac block2 c_rl c_rr c_sz c_sl].
    repeat split; cbn [rl rr dm bd]; auto.
    intros i p q Hi Hp Hq. cbn [sl bd rl rr]. unfold catl, cat0, zeros3.
    destruct (Nat.ltb_spec p a1), (Nat.ltb_spec q b1); reflexivity.
  - apply Nat.eqb_eq in W2. subst t2.
    unfold sem_mode, absorb. cbn [core fac block2 c_rl c_rr c_sz c_sl].
    repeat split; cbn [rl rr dm bd]; auto.
    intros i p q Hi Hp Hq. cbn [sl bd rl rr]. unfold catl, cat0, zeros3.
    destruct (Nat.ltb_spec p a1), (Nat.ltb_spec q b1); reflexivity.
  - unfold sem_mode, absorb. cbn [core fac block2 c_rl c_rr c_sz c_sl].
    repeat split; cbn [rl rr dm bd]; auto.
    intros i p q Hi Hp Hq. cbn [sl bd rl rr]. unfold catl, cat0, zeros3.
    destruct (Nat.ltb_spec p a1), (Nat.ltb_spec q b1); reflexivity.
Qed.

Ltac red2 := change (1 + 1)%nat with 2%nat; cbn [sumn]; change (0 <? 1)%nat with true;
  change (1 <? 1)%nat with false; change (1 - 1)%nat with 0%nat; cbv beta iota.

Lemma raw_cp_eq s1 r1 g1 (f1 : facT K) s2 r2 g2 (f2 : facT K) :
  let m1 := mkMode (CCP s1 r1 g1) f1 in let m2 := mkMode (CCP s2 r2 g2) f2 in
  wf_mode m1 = true -> wf_mode m2 = true -> m_size m1 = m_size m2 ->
  score_eq_in (bd (sem_mode m1) (sem_mode m2))
              (sem_mode (on_core squeeze_sum (add_raw (lift_cp (core m1)) (lift_cp (core m2)) f1 f2))).
Proof.
  intros m1 m2 W1 W2 Es. subst m1 m2. unfold wf_mode, m_size in *. cbn [core fac c_sz] in *.
  destruct f1 as [[[d1 t1] U1]|], f2 as [[[d2 t2] U2]|]; unfold add_raw; cbn [andb].
  - apply Nat.eqb_eq in W1, W2. subst t1 t2 d2.
    unfold sem_mode, on_core. cbn [core fac lift_cp block3 catU squeeze_sum c_rl c_rr c_sz c_sl].
    repeat split; cbn [rl rr dm bd]; auto.
    intros i p q Hi Hp Hq. cbn [sl bd rl rr].
    transitivity (sumn s1 (fun j => U1 i j * (if Nat.eqb p q then (if (p <? r1)%nat then g1 j p else 0) else 0)) +
                  sumn s2 (fun j => U2 i j * (if Nat.eqb p q then (if (p <? r1)%nat then 0 else g2 j (p - r1)%nat) else 0))).
    2:{ symmetry. rewrite sumn_app by assumption. f_equal; apply sumn_ext; intros j Hj; unfold cat1, catl, cat0, zeros3.
        - destruct (Nat.ltb_spec j s1); [|lia]. destruct (Nat.eqb p q); [|reflexivity]. red2.
          destruct (p <? r1)%nat; f_equal; ring.
        - destruct (Nat.ltb_spec (s1 + j) s1); [lia|]. replace (s1 + j - s1)%nat with j by lia.
          destruct (Nat.eqb p q); [|reflexivity]. red2.
          destruct (p <? r1)%nat; f_equal; ring. }
    destruct (Nat.eqb_spec p q) as [->|Hne].
    + destruct (Nat.ltb_spec q r1); cbv beta iota.
      * rewrite (sumn_zero_ext Kth s2) by (intros; ring). try rewrite !Nat.eqb_refl; ring.
      * rewrite (sumn_zero_ext Kth s1) by (intros; ring). try rewrite !Nat.eqb_refl; ring.
    + rewrite (sumn_zero_ext Kth s1 (fun j => U1 i j * 0)) by (intros; ring).
      rewrite (sumn_zero_ext Kth s2 (fun j => U2 i j * 0)) by (intros; ring).
      destruct (Nat.ltb_spec p r1), (Nat.ltb_spec q r1); cbv beta iota; try ring.
      all: rewrite sumn_zero_ext; auto; [ring|]; intros j Hj;
        try (destruct (Nat.eqb_spec p q); [lia|ring]); try (destruct (Nat.eqb_spec (p - r1) (q - r1)); [lia|ring]).
  - apply Nat.eqb_eq in W1. subst t1.
    unfold sem_mode, on_core, absorb. cbn [core fac lift_cp block2 squeeze_sum c_rl c_rr c_sz c_sl].
    repeat split; cbn [rl rr dm bd]; auto.
    intros i p q Hi Hp Hq. cbn [sl bd rl rr]. unfold catl, cat0, zeros3. red2.
    destruct (Nat.eqb_spec p q) as [->|Hne].
    + destruct (Nat.ltb_spec q r1); cbv beta iota.
      * try rewrite !Nat.eqb_refl; ring.
      * try rewrite !Nat.eqb_refl; ring.
    + destruct (Nat.ltb_spec p r1), (Nat.ltb_spec q r1); cbv beta iota; try reflexivity.
      all: try (apply sumn_zero_ext; auto; intros j Hj);
        try (destruct (Nat.eqb_spec p q); [lia|try reflexivity; ring]); try (destruct (Nat.eqb_spec (p - r1) (q - r1)); [lia|try reflexivity; ring]).
  - apply Nat.eqb_eq in W2. subst t2.
    unfold sem_mode, on_core, absorb. cbn [core fac lift_cp block2 squeeze_sum c_rl c_rr c_sz c_sl].
    repeat split; cbn [rl rr dm bd]; auto.
    intros i p q Hi Hp Hq. cbn [sl bd rl rr]. unfold catl, cat0, zeros3. red2.
    destruct (Nat.eqb_spec p q) as [->|Hne].
    + destruct (Nat.ltb_spec q r1); cbv beta iota.
      * try rewrite !Nat.eqb_refl; ring.
      * try rewrite !Nat.eqb_refl; ring.
    + destruct (Nat.ltb_spec p r1), (Nat.ltb_spec q r1); cbv beta iota; try reflexivity.
      all: try (apply sumn_zero_ext; auto; intros j Hj);
        try (destruct (Nat.eqb_spec p q); [lia|try reflexivity; ring]); try (destruct (Nat.eqb_spec (p - r1) (q - r1)); [lia|try reflexivity; ring]).
  - unfold sem_mode, on_core, absorb. cbn [core fac lift_cp block2 squeeze_sum c_rl c_rr c_sz c_sl].
    repeat split; cbn [rl rr dm bd]; auto.
    intros i p q Hi Hp Hq. cbn [sl bd rl rr]. unfold catl, cat0, zeros3. red2.
    destruct (Nat.eqb_spec p q) as [->|Hne].
    + destruct (Nat.ltb_spec q r1); cbv beta iota; try rewrite Nat.eqb_refl; ring.
    + destruct (Nat.ltb_spec p r1), (Nat.ltb_spec q r1); cbv beta iota; try reflexivity.
      all: try (apply sumn_zero_ext; auto; intros j Hj);
        try (destruct (Nat.eqb_spec p q); [lia|try reflexivity; ring]); try (destruct (Nat.eqb_spec (p - r1) (q - r1)); [lia|try reflexivity; ring]).
Qed.

(* boundary sums of a TT-core mode *)
Lemma first_sl a s b g (f : facT K) :
  let M := sem_mode (mkMode (CTT a s b g) f) in let X := sem_mode (on_core sum_first (mkMode (CTT a s b g) f)) in
  rl X = 1%nat /\ rr X = rr M /\ dm X = dm M /\ forall i p q, sl X i p q = sumn (rl M) (fun p' => sl M i p' q).
Proof.
  cbv zeta. unfold sem_mode, on_core. cbn [core fac sum_first]. destruct f as [[[di s'] U]|]; cbn [rl rr dm sl c_rl c_rr c_sz c_sl]; repeat split; auto.
  intros i p q. rewrite sumn_exch by assumption. apply sumn_ext. intros j _. rewrite sumn_mul_l by assumption. reflexivity.
Qed.
Lemma last_sl a s b g (f : facT K) :
  let M := sem_mode (mkMode (CTT a s b g) f) in let X := sem_mode (on_core sum_last (mkMode (CTT a s b g) f)) in
  rl X = rl M /\ rr X = 1%nat /\ dm X = dm M /\ forall i p q, sl X i p q = sumn (rr M) (fun q' => sl M i p q').
Proof.
  cbv zeta. unfold sem_mode, on_core. cbn [core fac sum_last]. destruct f as [[[di s'] U]|]; cbn [rl rr dm sl c_rl c_rr c_sz c_sl]; repeat split; auto.
  intros i p q. rewrite sumn_exch by assumption. apply sumn_ext. intros j _. rewrite sumn_mul_l by assumption. reflexivity.
Qed.

Lemma add_raw_tt a1 s1 b1 g1 a2 s2 b2 g2 (f1 f2 : facT K) :
  exists a s b g f, add_raw (CTT a1 s1 b1 g1) (CTT a2 s2 b2 g2) f1 f2 = mkMode (CTT a s b g) f.
Proof. unfold add_raw, absorb. destruct f1 as [[[d1 t1] U1]|], f2 as [[[d2 t2] U2]|]; cbn; do 5 eexists; reflexivity. Qed.

Lemma cp_to_tt_is_tt (c : cdata K) : exists a s b g, cp_to_tt_core c = CTT a s b g /\ a = c_rl c /\ b = c_rr c /\ s = c_sz c.
Proof. destruct c as [a s b g|s r g]; cbn; do 4 eexists; repeat split; reflexivity. Qed.

Definition BD (m1 m2 : mode K) : score K := bd (sem_mode m1) (sem_mode m2).
Definition cpp (m1 m2 : mode K) : bool := both_cp (core m1) (core m2).

(* the three positions of a mode in the sum *)
Definition mid_ok (X B : score K) : Prop := score_eq_in B X.
Definition first_ok (X B : score K) : Prop :=
  rr X = rr B /\ dm X = dm B /\
  forall i q, (i < dm B)%nat -> (q < rr B)%nat -> sumn (rl X) (fun p => sl X i p q) = sumn (rl B) (fun p => sl B i p q).
Definition last_ok (X B : score K) : Prop :=
  rl X = rl B /\ dm X = dm B /\
  forall i p, (i < dm B)%nat -> (p < rl B)%nat -> sumn (rr X) (fun q => sl X i p q) = sumn (rr B) (fun q => sl B i p q).

Lemma mid_first (X B : score K) : mid_ok X B -> first_ok X B.
Proof. intros (E1 & E2 & E3 & E4). repeat split; auto. intros i q Hi Hq. rewrite <- E1. apply sumn_ext. intros p Hp. symmetry. apply E4; auto. Qed.
Lemma mid_last (X B : score K) : mid_ok X B -> last_ok X B.
Proof. intros (E1 & E2 & E3 & E4). repeat split; auto. intros i p Hi Hp. rewrite <- E2. apply sumn_ext. intros q Hq. symmetry. apply E4; auto. Qed.

Section OneMode.
Variables m1 m2 : mode K.
Hypothesis W1 : wf_mode m1 = true.
Hypothesis W2 : wf_mode m2 = true.
Hypothesis Es : m_size m1 = m_size m2.

Lemma tt_path_raw : cpp m1 m2 = false ->
  exists a s b g f, add_raw (cp_to_tt_core (core m1)) (cp_to_tt_core (core m2)) (fac m1) (fac m2) = mkMode (CTT a s b g) f /\
    score_eq_in (BD m1 m2) (sem_mode (mkMode (CTT a s b g) f)).
Proof.
  intros _.
  destruct (cp_to_tt_is_tt (core m1)) as (a1 & s1 & b1 & g1 & E1 & _ & _ & Z1).
  destruct (cp_to_tt_is_tt (core m2)) as (a2 & s2 & b2 & g2 & E2 & _ & _ & Z2).
  destruct (add_raw_tt a1 s1 b1 g1 a2 s2 b2 g2 (fac m1) (fac m2)) as (a & s & b & g & f & E).
  exists a, s, b, g, f. rewrite E1, E2. split; [exact E|]. rewrite <- E.
  assert (V1: wf_mode (mkMode (CTT a1 s1 b1 g1) (fac m1)) = true).
  { unfold wf_mode in *. cbn [fac core c_sz]. rewrite Z1. exact W1. }
  assert (V2: wf_mode (mkMode (CTT a2 s2 b2 g2) (fac m2)) = true).
  { unfold wf_mode in *. cbn [fac core c_sz]. rewrite Z2. exact W2. }
  assert (S12: m_size (mkMode (CTT a1 s1 b1 g1) (fac m1)) = m_size (mkMode (CTT a2 s2 b2 g2) (fac m2))).
  { unfold m_size in *. cbn [fac core c_sz]. rewrite Z1, Z2. exact Es. }
  assert (Q1 := cp_mid_eq K m1 W1). assert (Q2 := cp_mid_eq K m2 W2).
  unfold on_core in Q1, Q2. rewrite E1 in Q1. rewrite E2 in Q2.
  eapply score_eq_in_trans; [|exact (raw_tt_eq a1 s1 b1 g1 (fac m1) a2 s2 b2 g2 (fac m2) V1 V2 S12)].
  unfold BD. apply bd_cong; auto.
  destruct (sem_mode_dims m1) as (_ & _ & D1). destruct (sem_mode_dims m2) as (_ & _ & D2). congruence.
Qed.

Lemma add_mode_mid : mid_ok (sem_mode (add_mode false false m1 m2)) (BD m1 m2).
Proof.
  unfold add_mode. fold (cpp m1 m2). cbn [andb]. unfold mid_ok.
  change (if has_fac m1 && has_fac m2 then _ else _) with
    (add_raw (prep (cpp m1 m2) (core m1)) (prep (cpp m1 m2) (core m2)) (fac m1) (fac m2)).
  destruct (cpp m1 m2) eqn:C.
  - unfold cpp, both_cp in C. apply andb_true_iff in C. destruct C as [C1 C2].
    destruct m1 as [[?|s1 r1 g1] f1]; [discriminate|]. destruct m2 as [[?|s2 r2 g2] f2]; [discriminate|].
    cbn [prep]. apply (raw_cp_eq s1 r1 g1 f1 s2 r2 g2 f2 W1 W2 Es).
  - cbn [prep]. destruct (tt_path_raw C) as (a & s & b & g & f & E & Q). rewrite E. exact Q.
Qed.

Lemma add_mode_first : first_ok (sem_mode (add_mode true false m1 m2)) (BD m1 m2).
Proof.
  assert (M := add_mode_mid). unfold add_mode in *. fold (cpp m1 m2) in *. cbn [andb] in *.
  change (if has_fac m1 && has_fac m2 then _ else _) with
    (add_raw (prep (cpp m1 m2) (core m1)) (prep (cpp m1 m2) (core m2)) (fac m1) (fac m2)) in *.
  destruct (cpp m1 m2) eqn:C; cbn [negb] in *.
  - apply mid_first. exact M.
  - cbn [prep] in *. destruct (tt_path_raw C) as (a & s & b & g & f & E & Q). rewrite E in *.
    destruct (first_sl a s b g f) as (F1 & F2 & F3 & F4). cbv zeta in *.
    destruct Q as (Q1 & Q2 & Q3 & Q4).
    repeat split; try congruence.
    intros i q Hi Hq. rewrite F1, sumn_1 by assumption. rewrite F4. rewrite <- Q1.
    apply sumn_ext. intros p Hp. symmetry. apply Q4; auto.
Qed.

Lemma add_mode_last : last_ok (sem_mode (add_mode false true m1 m2)) (BD m1 m2).
Proof.
  assert (M := add_mode_mid). unfold add_mode in *. fold (cpp m1 m2) in *. cbn [andb] in *.
  change (if has_fac m1 && has_fac m2 then _ else _) with
    (add_raw (prep (cpp m1 m2) (core m1)) (prep (cpp m1 m2) (core m2)) (fac m1) (fac m2)) in *.
  destruct (cpp m1 m2) eqn:C; cbn [negb] in *.
  - apply mid_last. exact M.
  - cbn [prep] in *. destruct (tt_path_raw C) as (a & s & b & g & f & E & Q). rewrite E in *.
    destruct (last_sl a s b g f) as (F1 & F2 & F3 & F4). cbv zeta in *.
    destruct Q as (Q1 & Q2 & Q3 & Q4).
    repeat split; try congruence.
    intros i p Hi Hp. rewrite F2, sumn_1 by assumption. rewrite F4. rewrite <- Q2.
    apply sumn_ext. intros q Hq. symmetry. apply Q4; auto.
Qed.
End OneMode.

(* ---------- addition, whole tensor ---------- *)
Fixpoint ok2 (t u : tensor K) : Prop :=
  match t, u with
  | [], [] => True
  | m1 :: t', m2 :: u' => wf_mode m1 = true /\ wf_mode m2 = true /\ m_size m1 = m_size m2 /\ ok2 t' u'
  | _, _ => False
  end.

Lemma ok2_intro (t : tensor K) : forall u, (forall m, In m t -> wf_mode m = true) ->
  (forall m, In m u -> wf_mode m = true) -> shape t = shape u -> ok2 t u.
Proof.
  induction t as [|m1 t IH]; intros [|m2 u] H1 H2 E; try discriminate; cbn [ok2]; auto.
  cbn [shape map] in E. injection E as E0 E. repeat split.
  - apply H1; left; auto.
  - apply H2; left; auto.
  - exact E0.
  - apply IH; auto; intros; [apply H1|apply H2]; right; auto.
Qed.

Lemma nat_list_eqb_eq l1 : forall l2, nat_list_eqb l1 l2 = true -> l1 = l2.
Proof.
  unfold nat_list_eqb. induction l1 as [|x l1 IH]; intros [|y l2] H; try discriminate; auto.
  cbn [length combine forallb fst snd] in H. apply andb_true_iff in H. destruct H as [H1 H2].
  apply andb_true_iff in H2. destruct H2 as [H2 H3]. apply Nat.eqb_eq in H2. subst y. f_equal.
  apply IH. apply andb_true_iff. split; auto.
Qed.

Lemma BD_dims (m1 m2 : mode K) :
  rl (BD m1 m2) = (rl (sem_mode m1) + rl (sem_mode m2))%nat /\ rr (BD m1 m2) = (rr (sem_mode m1) + rr (sem_mode m2))%nat /\
  dm (BD m1 m2) = m_size m1.
Proof. unfold BD. cbn [rl rr dm bd]. destruct (sem_mode_dims m1) as (_ & _ & D). auto. Qed.

Lemma add_tail (t : tensor K) : forall u ra rb idx p, t <> [] -> ok2 t u -> wf2 ra rb (sem t) (sem u) ->
  in_range (shape t) idx = true -> (p < ra + rb)%nat ->
  evalv (sem (add_modes false t u)) idx ones p = evalv (zipbd (sem t) (sem u)) idx ones p.
Proof.
  induction t as [|m1 t IH]; [congruence|]. intros [|m2 u] ra rb idx p _ Hok Hwf Hr Hp; [simpl in Hok; tauto|].
  destruct Hok as (W1 & W2 & Es & Hok). cbn [sem map wf2] in Hwf. destruct Hwf as (Ea & Eb & Hwf).
  destruct idx as [|i idx]; [discriminate|]. cbn [shape map in_range] in Hr. apply andb_true_iff in Hr.
  destruct Hr as [Hi Hr]. apply Nat.ltb_lt in Hi.
  destruct (BD_dims m1 m2) as (B1 & B2 & B3).
  cbn [add_modes sem map zipbd evalv]. fold (BD m1 m2).
  destruct t as [|m1' t'].
  - destruct u as [|m2' u']; [|simpl in Hok; tauto]. destruct idx; [|discriminate].
    cbn [is_nil add_modes map zipbd evalv].
    destruct (add_mode_last m1 m2 W1 W2 Es) as (L1 & L2 & L3).
    rewrite (sumn_ext _ _ (fun q => sl (sem_mode (add_mode false true m1 m2)) i p q)) by (intros; unfold ones; ring).
    rewrite (sumn_ext (rr (BD m1 m2)) _ (fun q => sl (BD m1 m2) i p q)) by (intros; unfold ones; ring).
    apply L3; [rewrite B3; exact Hi|rewrite B1; lia].
  - cbn [is_nil]. destruct (add_mode_mid m1 m2 W1 W2 Es) as (E1 & E2 & E3 & E4).
    rewrite <- E2. apply sumn_ext. intros q Hq. rewrite <- E4; [|rewrite B3; exact Hi|rewrite B1; lia|exact Hq].
    f_equal. change (map sem_mode (add_modes false (m1' :: t') u)) with (sem (add_modes false (m1' :: t') u)).
    change (map sem_mode (m1' :: t')) with (sem (m1' :: t')). change (map sem_mode u) with (sem u).
    apply (IH u (rr (sem_mode m1)) (rr (sem_mode m2))); auto; try discriminate; try (rewrite <- B2; exact Hq).
Qed.

Theorem add_modes_sound (t u : tensor K) idx : (2 <= length t)%nat -> ok2 t u ->
  wf2 (hd_rl K (sem t)) (hd_rl K (sem u)) (sem t) (sem u) -> in_range (shape t) idx = true ->
  eval (sem (add_modes true t u)) idx = eval (zipbd (sem t) (sem u)) idx.
Proof.
  intros Hl Hok Hwf Hr. destruct t as [|m1 [|m1' t']]; cbn [length] in Hl; try lia.
  destruct u as [|m2 u]; [simpl in Hok; tauto|]. destruct Hok as (W1 & W2 & Es & Hok).
  cbn [sem map hd_rl wf2] in Hwf. destruct Hwf as (_ & _ & Hwf).
  destruct idx as [|i idx]; [discriminate|]. cbn [shape map in_range] in Hr. apply andb_true_iff in Hr.
  destruct Hr as [Hi Hr]. apply Nat.ltb_lt in Hi.
  destruct (BD_dims m1 m2) as (B1 & B2 & B3).
  cbn [add_modes is_nil sem map zipbd]. fold (BD m1 m2). unfold eval. cbn [evalv].
  destruct (add_mode_first m1 m2 W1 W2 Es) as (F1 & F2 & F3).
  set (X := sem_mode (add_mode true false m1 m2)) in *.
  set (E := evalv (map sem_mode (add_modes false (m1' :: t') u)) idx ones).
  set (E' := evalv (zipbd (map sem_mode (m1' :: t')) (map sem_mode u)) idx ones).
  assert (HE: forall q, (q < rr (BD m1 m2))%nat -> E q = E' q).
  { intros q Hq. subst E E'. apply (add_tail (m1' :: t') u (rr (sem_mode m1)) (rr (sem_mode m2))); auto; try discriminate;
    try (rewrite <- B2; exact Hq). }
  rewrite sumn_exch by assumption. rewrite (sumn_exch Kth (rl (BD m1 m2))).
  rewrite F1. apply sumn_ext. intros q Hq.
  rewrite !sumn_mul_r by assumption. rewrite HE by exact Hq. f_equal. apply F3; [rewrite B3; exact Hi|exact Hq].
Qed.

Lemma shape_length (t : tensor K) : length (shape t) = length t.
Proof. apply map_length. Qed.

Lemma wf2_of_wf (t u : tensor K) : wf_tensor t = true -> wf_tensor u = true -> length t = length u ->
  wf2 (hd_rl K (sem t)) (hd_rl K (sem u)) (sem t) (sem u).
Proof.
  intros Wt Wu Hl. apply chain_wf2.
  - apply (wf_tensor_chain K t Wt).
  - apply (wf_tensor_chain K u Wu).
  - unfold sem. rewrite !map_length. exact Hl.
Qed.

(* the ordinary concrete addition refines block-diagonal stacking: value = sum of the operands' values *)
Theorem add_c_sound (t u r : tensor K) idx : wf_tensor t = true -> wf_tensor u = true ->
  add_c t u = Some r -> in_range (shape t) idx = true ->
  den r idx = den t idx + den u idx.
Proof.
  intros Wt Wu H Hr. unfold add_c in H.
  destruct (nat_list_eqb (shape t) (shape u)) eqn:Esh; [|discriminate].
  destruct (2 <=? length t)%nat eqn:E2; [|discriminate]. cbn [andb] in H. injection H as <-.
  apply nat_list_eqb_eq in Esh. apply Nat.leb_le in E2.
  assert (Hl: length t = length u) by (rewrite <- !shape_length; congruence).
  assert (Hw := wf2_of_wf t u Wt Wu Hl).
  unfold den. rewrite add_modes_sound; auto.
  - apply L2_eval; auto.
    + destruct t; [simpl in E2; lia|discriminate].
    + unfold sem. rewrite map_length. rewrite <- (shape_length t). apply in_range_length. exact Hr.
  - apply ok2_intro; auto; apply wf_tensor_modes; assumption.
Qed.

(* every batch element of a batch sum decompresses to the sum of the operands' elements *)
Lemma add_b_bsz (t u r : btensor K) : add_b t u = Some r -> bsz t = bsz u /\ bsz r = bsz t.
Proof. unfold add_b. destruct (Nat.eqb_spec (bsz t) (bsz u)); [|discriminate]. cbn [andb].
  destruct (_ && _); [|discriminate]. intros H. injection H as <-. auto. Qed.

Theorem add_b_sound (t u r : btensor K) bb idx : wf_btensor t = true -> wf_btensor u = true ->
  add_b t u = Some r -> in_range (bshape_of (bmodes t)) idx = true ->
  den (slice_b r bb) idx = den (slice_b t bb) idx + den (slice_b u bb) idx.
Proof.
  intros Wt Wu H Hr. destruct (add_b_bsz t u r H) as [EB _].
  assert (S := slice_add_b K t u bb EB). rewrite H in S. cbn [option_map] in S.
  apply add_c_sound; auto using wf_slice. unfold slice_b. rewrite shape_slice. exact Hr.
Qed.

(* ---------- multiplication, one mode ---------- *)
Definition mul_raw (dec : bool) (c1 c2 : cdata K) (f1 f2 : facT K) : mode K :=
  if (match f1 with Some _ => true | None => false end) && (match f2 with Some _ => true | None => false end) && dec
  then mkMode (kron3 c1 c2) (kronU f1 f2)
  else mkMode (kron2 (absorb (mkMode c1 f1)) (absorb (mkMode c2 f2))) None.

Lemma sumn_kron s1 s2 (f1 f2 : nat -> K) :
  sumn (s1 * s2) (fun j => f1 (j / s2)%nat * f2 (j mod s2)%nat) = sumn s1 f1 * sumn s2 f2.
Proof.
  rewrite sumn_prod by assumption. rewrite <- sumn_sumn_mul by assumption.
  apply sumn_ext. intros j1 H1. apply sumn_ext. intros j2 H2.
  destruct (divmod_small s2 j1 j2 H2) as [E1 E2]. rewrite E1, E2. reflexivity.
Qed.

Lemma raw_tt_kr dec a1 s1 b1 g1 (f1 : facT K) a2 s2 b2 g2 (f2 : facT K) :
  let m1 := mkMode (CTT a1 s1 b1 g1) f1 in let m2 := mkMode (CTT a2 s2 b2 g2) f2 in
  wf_mode m1 = true -> wf_mode m2 = true -> m_size m1 = m_size m2 ->
  score_eq_in (kr (sem_mode m1) (sem_mode m2)) (sem_mode (mul_raw dec (core m1) (core m2) f1 f2)).
Proof.
  intros m1 m2 W1 W2 Es. subst m1 m2. unfold wf_mode, m_size in *. cbn [core fac c_sz] in *.
  destruct f1 as [[[d1 t1] U1]|], f2 as [[[d2 t2] U2]|]; unfold mul_raw; cbn [andb]; [destruct dec|..].
  - apply Nat.eqb_eq in W1, W2. subst t1 t2 d2.
    unfold sem_mode. cbn [core fac kron3 kronU c_rl c_rr c_sz c_sl].
    repeat split; cbn [rl rr dm kr]; auto.
    intros i p q Hi Hp Hq. cbn [sl kr rl rr].
    rewrite <- (sumn_kron s1 s2 (fun j => U1 i j * g1 (p / a2)%nat j (q / b2)%nat) (fun j => U2 i j * g2 (p mod a2)%nat j (q mod b2)%nat)).
    apply sumn_ext. intros j Hj. ring.
  - apply Nat.eqb_eq in W1, W2. subst t1 t2 d2.
    unfold sem_mode, absorb. cbn [core fac kron2 c_rl c_rr c_sz c_sl]. repeat split; auto.
  - apply Nat.eqb_eq in W1. subst t1.
    unfold sem_mode, absorb. cbn [core fac kron2 c_rl c_rr c_sz c_sl]. repeat split; auto.
  - apply Nat.eqb_eq in W2. subst t2.
    unfold sem_mode, absorb. cbn [core fac kron2 c_rl c_rr c_sz c_sl]. repeat split; auto.
  - unfold sem_mode, absorb. cbn [core fac kron2 c_rl c_rr c_sz c_sl]. repeat split; auto.
Qed.

Lemma divmod_eq r p q : r <> 0%nat -> (p / r = q / r)%nat -> (p mod r = q mod r)%nat -> p = q.
Proof. intros Hr E1 E2. rewrite (Nat.div_mod p r Hr), (Nat.div_mod q r Hr). congruence. Qed.

Lemma diag_kron r2 p q (x y : K) : r2 <> 0%nat ->
  (if Nat.eqb (p / r2) (q / r2) then x else 0) * (if Nat.eqb (p mod r2) (q mod r2) then y else 0) =
  if Nat.eqb p q then x * y else 0.
Proof.
  intros Hr. destruct (Nat.eqb_spec p q) as [->|Hne].
  - rewrite !Nat.eqb_refl. reflexivity.
  - destruct (Nat.eqb_spec (p / r2) (q / r2)); [|ring]. destruct (Nat.eqb_spec (p mod r2) (q mod r2)); [|ring].
    exfalso. apply Hne. eapply divmod_eq; eauto.
Qed.

Lemma sumn_if n (c : bool) (f : nat -> K) : sumn n (fun j => f j * (if c then 0 else 0)) = 0.
Proof. apply sumn_if_zero. Qed.

Lemma sumn_diag n (c : bool) (U : nat -> K) (g : nat -> K) :
  sumn n (fun j => U j * (if c then g j else 0)) = if c then sumn n (fun j => U j * g j) else 0.
Proof. destruct c; [reflexivity|]. apply sumn_zero_ext; auto. intros; ring. Qed.

Lemma raw_cp_kr dec s1 r1 g1 (f1 : facT K) s2 r2 g2 (f2 : facT K) :
  let m1 := mkMode (CCP s1 r1 g1) f1 in let m2 := mkMode (CCP s2 r2 g2) f2 in
  wf_mode m1 = true -> wf_mode m2 = true -> m_size m1 = m_size m2 ->
  score_eq_in (kr (sem_mode m1) (sem_mode m2))
              (sem_mode (on_core take_first (mul_raw dec (lift_cp (core m1)) (lift_cp (core m2)) f1 f2))).
Proof.
  intros m1 m2 W1 W2 Es. subst m1 m2. unfold wf_mode, m_size in *. cbn [core fac c_sz] in *.
  destruct f1 as [[[d1 t1] U1]|], f2 as [[[d2 t2] U2]|]; unfold mul_raw; cbn [andb]; [destruct dec|..].
  - apply Nat.eqb_eq in W1, W2. subst t1 t2 d2.
    unfold sem_mode, on_core. cbn [core fac lift_cp kron3 kronU take_first c_rl c_rr c_sz c_sl].
    repeat split; cbn [rl rr dm kr]; auto.
    intros i p q Hi Hp Hq. cbn [sl kr rl rr].
    assert (Hr: r2 <> 0%nat) by (intros Z; rewrite Z in Hp; lia).
    rewrite !sumn_diag. rewrite diag_kron by exact Hr. destruct (Nat.eqb p q); [|reflexivity].
    rewrite <- sumn_kron. apply sumn_ext. intros j Hj. ring.
  - apply Nat.eqb_eq in W1, W2. subst t1 t2 d2.
    unfold sem_mode, on_core, absorb. cbn [core fac lift_cp kron2 take_first c_rl c_rr c_sz c_sl].
    repeat split; cbn [rl rr dm kr]; auto.
    intros i p q Hi Hp Hq. cbn [sl kr rl rr].
    assert (Hr: r2 <> 0%nat) by (intros Z; rewrite Z in Hp; lia).
    rewrite !sumn_diag. rewrite diag_kron by exact Hr. reflexivity.
  - apply Nat.eqb_eq in W1. subst t1.
    unfold sem_mode, on_core, absorb. cbn [core fac lift_cp kron2 take_first c_rl c_rr c_sz c_sl].
    repeat split; cbn [rl rr dm kr]; auto.
    intros i p q Hi Hp Hq. cbn [sl kr rl rr].
    assert (Hr: r2 <> 0%nat) by (intros Z; rewrite Z in Hp; lia).
    rewrite !sumn_diag. rewrite diag_kron by exact Hr. reflexivity.
  - apply Nat.eqb_eq in W2. subst t2.
    unfold sem_mode, on_core, absorb. cbn [core fac lift_cp kron2 take_first c_rl c_rr c_sz c_sl].
    repeat split; cbn [rl rr dm kr]; auto.
    intros i p q Hi Hp Hq. cbn [sl kr rl rr].
    assert (Hr: r2 <> 0%nat) by (intros Z; rewrite Z in Hp; lia).
    rewrite !sumn_diag. rewrite diag_kron by exact Hr. reflexivity.
  - unfold sem_mode, on_core, absorb. cbn [core fac lift_cp kron2 take_first c_rl c_rr c_sz c_sl].
    repeat split; cbn [rl rr dm kr]; auto.
    intros i p q Hi Hp Hq. cbn [sl kr rl rr].
    assert (Hr: r2 <> 0%nat) by (intros Z; rewrite Z in Hp; lia).
    rewrite diag_kron by exact Hr. reflexivity.
Qed.

Lemma mul_mode_kr dec (m1 m2 : mode K) : wf_mode m1 = true -> wf_mode m2 = true -> m_size m1 = m_size m2 ->
  score_eq_in (kr (sem_mode m1) (sem_mode m2)) (sem_mode (mul_mode dec m1 m2)).
Proof.
  intros W1 W2 Es. unfold mul_mode. fold (cpp m1 m2).
  change (if has_fac m1 && has_fac m2 && dec then _ else _) with
    (mul_raw dec (prep (cpp m1 m2) (core m1)) (prep (cpp m1 m2) (core m2)) (fac m1) (fac m2)).
  destruct (cpp m1 m2) eqn:C.
  - unfold cpp, both_cp in C. apply andb_true_iff in C. destruct C as [C1 C2].
    destruct m1 as [[?|s1 r1 g1] f1]; [discriminate|]. destruct m2 as [[?|s2 r2 g2] f2]; [discriminate|].
    cbn [prep]. apply (raw_cp_kr dec s1 r1 g1 f1 s2 r2 g2 f2 W1 W2 Es).
  - cbn [prep].
    destruct (cp_to_tt_is_tt (core m1)) as (a1 & s1 & b1 & g1 & E1 & _ & _ & Z1).
    destruct (cp_to_tt_is_tt (core m2)) as (a2 & s2 & b2 & g2 & E2 & _ & _ & Z2).
    rewrite E1, E2.
    assert (V1: wf_mode (mkMode (CTT a1 s1 b1 g1) (fac m1)) = true).
    { unfold wf_mode in *. cbn [fac core c_sz]. rewrite Z1. exact W1. }
    assert (V2: wf_mode (mkMode (CTT a2 s2 b2 g2) (fac m2)) = true).
    { unfold wf_mode in *. cbn [fac core c_sz]. rewrite Z2. exact W2. }
    assert (S12: m_size (mkMode (CTT a1 s1 b1 g1) (fac m1)) = m_size (mkMode (CTT a2 s2 b2 g2) (fac m2))).
    { unfold m_size in *. cbn [fac core c_sz]. rewrite Z1, Z2. exact Es. }
    assert (Q1 := cp_mid_eq K m1 W1). assert (Q2 := cp_mid_eq K m2 W2).
    unfold on_core in Q1, Q2. rewrite E1 in Q1. rewrite E2 in Q2.
    eapply score_eq_in_trans; [|exact (raw_tt_kr dec a1 s1 b1 g1 (fac m1) a2 s2 b2 g2 (fac m2) V1 V2 S12)].
    apply kr_cong; auto.
    destruct (sem_mode_dims m1) as (_ & _ & D1). destruct (sem_mode_dims m2) as (_ & _ & D2). congruence.
Qed.

Lemma mul_modes_kr (decs : list bool) : forall (t u : tensor K), length decs = length t -> ok2 t u ->
  Forall2 score_eq_in (zipkr (sem t) (sem u)) (sem (mul_modes decs t u)).
Proof.
  induction decs as [|d decs IH]; intros [|m1 t] [|m2 u] Hl Hok; try discriminate; try (simpl in Hok; tauto).
  - constructor.
  - destruct Hok as (W1 & W2 & Es & Hok). cbn [sem map zipkr mul_modes]. constructor.
    + apply mul_mode_kr; auto.
    + apply IH; auto.
Qed.

(* the ordinary concrete product, whatever representation choices [decs] are made, refines the Kronecker product *)
Theorem mul_with_sound (decs : list bool) (t u r : tensor K) idx : wf_tensor t = true -> wf_tensor u = true ->
  mul_with decs t u = Some r -> in_range (shape t) idx = true ->
  den r idx = den t idx * den u idx.
Proof.
  intros Wt Wu H Hr. unfold mul_with in H.
  destruct (nat_list_eqb (shape t) (shape u)) eqn:Esh; [|discriminate].
  destruct (Nat.eqb_spec (length decs) (length t)) as [Ed|]; [|discriminate]. cbn [andb] in H. injection H as <-.
  apply nat_list_eqb_eq in Esh.
  assert (Hl: length t = length u) by (rewrite <- !shape_length; congruence).
  assert (Hw := wf2_of_wf t u Wt Wu Hl).
  assert (Hne: sem t <> []) by (destruct t; [discriminate|discriminate]).
  assert (Hs: sshape (zipkr (sem t) (sem u)) = shape t).
  { rewrite sshape_zipkr; [apply sshape_sem|]. rewrite !sshape_sem. congruence. }
  unfold den. rewrite <- (L0_eval K (zipkr (sem t) (sem u)) (sem (mul_modes decs t u)) idx).
  - apply L3_eval; auto.
    unfold sem. rewrite map_length. rewrite <- (shape_length t). apply in_range_length. exact Hr.
  - apply mul_modes_kr; auto. apply ok2_intro; auto; apply wf_tensor_modes; assumption.
  - assert (C := chain_zipkr K (sem t) (sem u) _ _ Hw).
    destruct (sem t) as [|a xs] eqn:Ea; [congruence|]. destruct (sem u) as [|b ys] eqn:Eb; [simpl in Hw; tauto|].
    exact C.
  - rewrite Hs. exact Hr.
Qed.

Theorem mul_c_sound (t u r : tensor K) idx : wf_tensor t = true -> wf_tensor u = true ->
  mul_c t u = Some r -> in_range (shape t) idx = true -> den r idx = den t idx * den u idx.
Proof. apply mul_with_sound. Qed.

Lemma mul_b_bsz (t u r : btensor K) : mul_b t u = Some r -> bsz t = bsz u /\ bsz r = bsz t.
Proof. unfold mul_b. destruct (Nat.eqb_spec (bsz t) (bsz u)); [|discriminate]. cbn [andb].
  destruct (nat_list_eqb _ _); [|discriminate]. intros H. injection H as <-. auto. Qed.

Theorem mul_b_sound (t u r : btensor K) bb idx : wf_btensor t = true -> wf_btensor u = true ->
  mul_b t u = Some r -> in_range (bshape_of (bmodes t)) idx = true ->
  den (slice_b r bb) idx = den (slice_b t bb) idx * den (slice_b u bb) idx.
Proof.
  intros Wt Wu H Hr. destruct (mul_b_bsz t u r H) as [EB _].
  assert (S := slice_mul_b K t u bb EB). rewrite H in S. cbn [option_map] in S.
  apply (mul_with_sound (bdecs t u)); auto using wf_slice. unfold slice_b. rewrite shape_slice. exact Hr.
Qed.

(* ---------- scalar multiplication ---------- *)
Lemma scale_mode_eq (f : K) (m : mode K) : score_eq (sem_mode (on_core (scale_core f) m)) (scale f (sem_mode m)).
Proof.
  unfold sem_mode, on_core. cbn [core fac]. destruct (fac m) as [[[di s] U]|]; destruct (core m) as [a s0 b g|s0 r g];
    cbn [scale_core c_rl c_rr c_sz c_sl]; repeat split; cbn [rl rr sl scale]; auto; intros i p q.
  - rewrite <- sumn_mul_l by assumption. apply sumn_ext. intros; ring.
  - rewrite <- sumn_mul_l by assumption. apply sumn_ext. intros; destruct (Nat.eqb p q); ring.
  - ring.
  - destruct (Nat.eqb p q); ring.
Qed.

Lemma smul_c_net (phis : list K) : forall (t : tensor K), Forall2 score_eq (sem (smul_c phis t)) (smul_net phis (sem t)).
Proof.
  induction phis as [|f phis IH]; intros t.
  - cbn [smul_c smul_net]. induction (sem t); constructor; auto. repeat split; auto.
  - destruct t as [|m t]; [constructor|]. cbn [smul_c sem map smul_net]. constructor; [apply scale_mode_eq|apply IH].
Qed.

Theorem smul_c_sound (phis : list K) (t : tensor K) idx : wf_tensor t = true -> length phis = length t ->
  in_range (shape t) idx = true -> den (smul_c phis t) idx = prodl phis * den t idx.
Proof.
  intros Wt Hl Hr. unfold den. rewrite (eval_score_eq K _ _ idx (smul_c_net phis t)).
  destruct (smul_net_sound K Kth phis (sem t)) as (_ & _ & H).
  - apply wf_tensor_good; auto.
  - unfold sem. rewrite map_length. exact Hl.
  - apply H. unfold sem. rewrite map_length, <- (shape_length t). apply in_range_length. exact Hr.
Qed.

Theorem smul_b_sound (phis : list K) (t : btensor K) bb idx : wf_btensor t = true -> length phis = length (bmodes t) ->
  in_range (bshape_of (bmodes t)) idx = true ->
  den (slice_b (smul_b phis t) bb) idx = prodl phis * den (slice_b t bb) idx.
Proof.
  intros Wt Hl Hr. rewrite slice_smul_b. apply smul_c_sound; auto using wf_slice.
  - unfold slice_b. rewrite length_slice. exact Hl.
  - unfold slice_b. rewrite shape_slice. exact Hr.
Qed.

(* ---------- scalar addition ---------- *)
Lemma const_c_net (c : K) sh : Forall2 score_eq (sem (const_c c sh)) (const_net c sh).
Proof.
  destruct sh as [|d sh]; [constructor|]. cbn [const_c sem map const_net]. constructor.
  - unfold sem_mode. cbn [fac core c_rl c_rr c_sz c_sl const_core]. repeat split; auto. intros i p q. unfold const_core. cbn [sl]. ring.
  - rewrite map_map. induction sh as [|e sh IH]; [constructor|]. cbn [map]. constructor; [|exact IH].
    unfold sem_mode. cbn [fac core c_rl c_rr c_sz c_sl const_core]. repeat split; auto.
Qed.

Lemma const_c_shape (c : K) sh : shape (const_c c sh) = sh.
Proof. destruct sh as [|d sh]; [reflexivity|]. cbn [const_c shape map]. f_equal. rewrite map_map. cbn. apply map_id. Qed.

Lemma const_c_wf (c : K) sh : sh <> [] -> wf_tensor (const_c c sh) = true.
Proof.
  intros Hne. destruct sh as [|d sh]; [congruence|]. unfold wf_tensor. cbn [const_c]. apply andb_true_iff. split.
  - rewrite forallb_forall. intros m [<-|Hm]; [reflexivity|]. apply in_map_iff in Hm. destruct Hm as (e & <- & _). reflexivity.
  - cbn [sem map chain core c_rl]. unfold sem_mode at 1. cbn [fac core c_rl c_rr rl rr]. cbn [Nat.eqb andb].
    clear Hne. induction sh as [|e sh IH]; [reflexivity|]. cbn [map chain]. unfold sem_mode at 1.
    cbn [fac core c_rl c_rr rl rr Nat.eqb andb]. exact IH.
Qed.

Theorem sadd_c_sound (c : K) (t r : tensor K) idx : wf_tensor t = true -> sadd_c c t = Some r ->
  in_range (shape t) idx = true -> den r idx = den t idx + c.
Proof.
  intros Wt H Hr. unfold sadd_c in H.
  assert (Hne: shape t <> []) by (destruct t; [discriminate|discriminate]).
  rewrite (add_c_sound t (const_c c (shape t)) r idx Wt (const_c_wf c (shape t) Hne) H Hr). f_equal.
  unfold den. rewrite (eval_score_eq K _ _ idx (const_c_net c (shape t))).
  destruct (const_net_sound K Kth c (shape t) Hne) as (_ & _ & E). apply E. apply in_range_length. exact Hr.
Qed.

Theorem sadd_b_sound (c : K) (t r : btensor K) bb idx : wf_btensor t = true -> sadd_b c t = Some r ->
  in_range (bshape_of (bmodes t)) idx = true -> den (slice_b r bb) idx = den (slice_b t bb) idx + c.
Proof.
  intros Wt H Hr. assert (S := slice_sadd_b K c t bb). rewrite H in S. cbn [option_map] in S.
  apply sadd_c_sound; auto using wf_slice. unfold slice_b. rewrite shape_slice. exact Hr.
Qed.

(* ---------- selection along the batch mode, decompression of Tucker factors ---------- *)
Theorem select_b_sound B' sel (t : btensor K) bb idx : den (slice_b (select_b B' sel t) bb) idx = den (slice_b t (sel bb)) idx.
Proof. rewrite slice_select_b. reflexivity. Qed.

Theorem decompress_b_sound (t : btensor K) bb idx : wf_btensor t = true -> in_range (bshape_of (bmodes t)) idx = true ->
  den (slice_b (decompress_b t) bb) idx = den (slice_b t bb) idx.
Proof. intros Wt Hr. rewrite slice_decompress. apply decompress_sound; auto using wf_slice.
  unfold slice_b. rewrite shape_slice. exact Hr. Qed.

End BatchP.

(* ---------- non-vacuity: a concrete instance of the hypotheses (B = 2, a TT-Tucker mode and a CP mode) ---------- *)
From TN Require Import Alg.Inst.
Section Examples.
Open Scope Z_scope.
Definition ex_t : btensor ZO :=
  @mkBT ZO 2 [@mkBMode ZO (@lit_btt ZO 1 2 2 [1;2;3;4; 0;1;(-1);2]) (@lit_bU ZO 3 2 [1;0;0;1;1;1; 2;1;0;1;1;0]);
          @mkBMode ZO (@lit_bcp ZO 2 2 [1;2;3;4; 2;0;1;1]) None].
Definition ex_u : btensor ZO :=
  @mkBT ZO 2 [@mkBMode ZO (@lit_bcp ZO 3 2 [1;0;2;1;0;3; 1;1;0;2;1;0]) None;
          @mkBMode ZO (@lit_btt ZO 2 2 1 [1;2;3;4; 0;1;1;0]) None].
Example ex_wf : wf_btensor ex_t = true /\ wf_btensor ex_u = true. Proof. split; reflexivity. Qed.
Example ex_range : in_range (bshape_of (bmodes ex_t)) [2; 1]%nat = true. Proof. reflexivity. Qed.
Example ex_add : exists r, add_b ex_t ex_u = Some r. Proof. eexists. reflexivity. Qed.
Example ex_mul : exists r, mul_b ex_t ex_u = Some r. Proof. eexists. reflexivity. Qed.
Example ex_sadd : exists r, sadd_b (K:=ZO) 3 ex_t = Some r. Proof. eexists. reflexivity. Qed.
Example ex_smul : length (first_scaled (K:=ZO) 2 2) = length (bmodes ex_t). Proof. reflexivity. Qed.
(* the two batch elements are different tensors, and the instance is not the zero tensor *)
Example ex_values : den (slice_b ex_t 0) [2; 1]%nat = 36 /\ den (slice_b ex_t 1) [2; 1]%nat = 1 /\
                    den (slice_b ex_u 0) [2; 1]%nat = 12 /\ den (slice_b ex_u 1) [2; 1]%nat = 1.
Proof. vm_compute. repeat split. Qed.
End Examples.
