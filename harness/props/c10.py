"""C10: ANOVA decomposition - undo returns the original; single terms equal the brute-force ANOVA terms, are centred,
depend only on their variables, are mutually orthogonal; truncation keeps exactly the selected terms.

Implementation side: tn.anova_decomposition / tn.undo_anova_decomposition / tn.mask / tn.truncate_anova with masks
built through the tntorch logic / automata API (or explicit 2^N weight tensors).
Specification side: f_S = prod_{n in S}(I - E_n) prod_{n notin S} E_n f on the dense array (NumPy), E_n the
marginal-weighted average along mode n; masks read as weight functions on subsets (truth table in plain Python).
"""
from lib import *


# --------------------------------------------------------------------------- masks: JSON spec, builder, semantics

def build_mask(spec, N):
    """the implementation's mask tensor for a JSON formula"""
    op = spec[0]
    if op == "var":
        return tn.symbols(N)[spec[1]]
    if op == "not":
        return ~build_mask(spec[1], N)
    if op == "and":
        return build_mask(spec[1], N) & build_mask(spec[2], N)
    if op == "or":
        return build_mask(spec[1], N) | build_mask(spec[2], N)
    if op == "xor":
        return build_mask(spec[1], N) ^ build_mask(spec[2], N)
    if op == "only":
        return tn.only(build_mask(spec[1], N))
    if op == "any":
        return tn.any(N, spec[1])
    if op == "all":
        return tn.all(N, spec[1])
    if op == "none":
        return tn.none(N, spec[1])
    if op == "presence":
        return tn.presence(N, spec[1])
    if op == "absence":
        return tn.absence(N, spec[1])
    if op == "true":
        return tn.true(N)
    if op == "false":
        return tn.false(N)
    if op == "one":
        return tn.one(N)
    if op == "wmask":
        return tn.weight_mask(N, spec[1])
    if op == "weight":
        return tn.weight(N)
    if op == "explicit":
        return to_tn(spec[1])
    if op == "times":      # product of weights (tn.mask of one mask by another)
        return tn.mask(build_mask(spec[1], N), build_mask(spec[2], N))
    if op == "scale":
        return build_mask(spec[2], N) * float(spec[1])
    raise ValueError(op)


def mask_fn(spec, N):
    """the weight function  {0,1}^N -> R  that the formula denotes (independent of tntorch)"""
    op = spec[0]
    sub = [mask_fn(s, N) for s in spec[1:] if isinstance(s, list) and s and isinstance(s[0], str)]
    which = lambda w: list(range(N)) if w is None else [(int(k) % N) for k in np.atleast_1d(w)]
    if op == "var":
        n = spec[1]
        return lambda b: float(b[n])
    if op == "not":
        return lambda b: 1.0 - sub[0](b)
    if op == "and":
        return lambda b: sub[0](b) * sub[1](b)
    if op == "or":
        return lambda b: float(sub[0](b) + sub[1](b) - sub[0](b) * sub[1](b))
    if op == "xor":
        return lambda b: float(sub[0](b) + sub[1](b) - 2 * sub[0](b) * sub[1](b))
    if op == "only":
        f = sub[0]
        rel = set()
        for b in itertools.product((0, 1), repeat=N):
            for n in range(N):
                b2 = list(b); b2[n] = 1 - b2[n]
                if abs(f(b) - f(tuple(b2))) > 1e-12:
                    rel.add(n)
        return lambda b: f(b) if all(b[n] == 0 for n in range(N) if n not in rel) else 0.0
    if op == "any":
        w = which(spec[1])
        return lambda b: float(any(b[n] for n in w))
    if op in ("all", "presence"):
        w = which(spec[1])
        return lambda b: float(all(b[n] for n in w))
    if op in ("none", "absence"):
        w = which(spec[1])
        return lambda b: float(not any(b[n] for n in w))
    if op == "true":
        return lambda b: 1.0
    if op == "false":
        return lambda b: 0.0
    if op == "one":
        return lambda b: float(sum(b) == 1)
    if op == "wmask":
        ws = set(int(k) for k in np.atleast_1d(spec[1]))
        return lambda b: float(sum(b) in ws)
    if op == "weight":
        return lambda b: float(sum(b))
    if op == "explicit":
        d = dense_np(spec[1])
        return lambda b: float(d[tuple(b)])
    if op == "times":
        return lambda b: sub[0](b) * sub[1](b)
    if op == "scale":
        c = float(spec[1])
        return lambda b: c * sub[0](b)
    raise ValueError(op)


def mask_is_bool(spec):
    op = spec[0]
    if op in ("weight", "explicit", "scale"):
        return False
    return all(mask_is_bool(s) for s in spec[1:] if isinstance(s, list) and s and isinstance(s[0], str))


def mask_kind(spec):
    def ops(s):
        out = {s[0]}
        for x in s[1:]:
            if isinstance(x, list) and x and isinstance(x[0], str):
                out |= ops(x)
        return out
    o = ops(spec)
    if "explicit" in o:
        return "explicit"
    if o & {"weight", "wmask", "one"}:
        return "automaton" if len(o) == 1 else "automaton+formula"
    return "formula"


def explicit_mask(rng, N, kinds=None):
    """an explicit 2^N weight tensor (small integers, any sign) in any format mix.  sobol() reads a last core with an
    open bond (> 1 columns) as 'one index per column' (that is how dimension_distribution passes weight_one_hot), so
    a scalar-valued mask must have a closed last bond: a CP core in last position gets rank 1."""
    if kinds is None:
        kinds = [rng.choice(KINDS) for _ in range(N)]
    kinds = [tuple(k) for k in kinds]
    return ["explicit", rand_tensor_json(rng, [2] * N, kinds, maxr=1 if kinds[-1][0] == "cp" else 2, maxs=2)]


def mask_format(spec):
    if spec is None:
        return "-"
    if spec[0] == "explicit":
        return tsig(spec[1])
    for s in spec[1:]:
        if isinstance(s, list) and s and isinstance(s[0], str) and mask_format(s) != "TT*":
            return mask_format(s)
    return "TT*"


def est_rank(spec):
    """upper estimate of the TT rank of the mask tensor the formula builds (to keep cases cheap)"""
    op = spec[0]
    sub = [est_rank(s) for s in spec[1:] if isinstance(s, list) and s and isinstance(s[0], str)]
    if op == "wmask":
        return int(max(np.atleast_1d(spec[1]))) + 1
    if op in ("weight", "one"):
        return 2
    if op == "explicit":
        return 4
    if op == "not":
        return sub[0] + 1
    if op in ("and", "times"):
        return sub[0] * sub[1]
    if op in ("or", "xor"):
        return sub[0] + sub[1] + sub[0] * sub[1]
    if op in ("only", "scale"):
        return sub[0]
    return 1


def mentioned(spec, N):
    """variables whose mode of the mask tensor is built with two different slices"""
    op = spec[0]
    if op == "var":
        return {spec[1]}
    if op in ("any", "all", "none", "presence", "absence"):
        return set(range(N)) if spec[1] is None else set(int(k) % N for k in np.atleast_1d(spec[1]))
    if op in ("wmask", "one", "weight", "explicit"):
        return set(range(N))
    out = set()
    for s in spec[1:]:
        if isinstance(s, list) and s and isinstance(s[0], str):
            out |= mentioned(s, N)
    return out


def only_fragile(spec, N):
    """True when some only(g) is applied to a g that mentions a variable it does not depend on (the dependence
    cancels, e.g. parity(x0..x3) ^ x0).  logic.relevant_symbols decides relevance by `norm(difference) > 1e-10` on a
    norm computed in the compressed format, where an exactly cancelling difference comes out as ~1e-8, so only()
    keeps such a variable.  That is a robustness defect of logic.py (reported for C15); formulas of this class are
    not generated here."""
    if spec[0] == "only":
        g = spec[1]
        f = mask_fn(g, N)
        rel = set()
        for b in itertools.product((0, 1), repeat=N):
            for n in range(N):
                b2 = list(b); b2[n] = 1 - b2[n]
                if abs(f(b) - f(tuple(b2))) > 1e-12:
                    rel.add(n)
        if mentioned(g, N) - rel:
            return True
    return any(only_fragile(s, N) for s in spec[1:] if isinstance(s, list) and s and isinstance(s[0], str))


def rand_formula(rng, N, depth, cheap=False, maxrank=48):
    while True:
        f = rand_formula0(rng, N, depth, cheap)
        if est_rank(f) <= maxrank:      # only() of formulas with cancelling dependence included since repo 43ace47
            return f


def rand_formula0(rng, N, depth, cheap=False):
    if depth == 0 or rng.random() < 0.25:
        r = rng.random()
        sub = sorted(rng.sample(range(N), rng.randint(1, N)))
        if r < 0.5:
            return ["var", rng.randrange(N)]
        if r < 0.6:
            return ["any", sub]
        if r < 0.7:
            return ["all", sub]
        if r < 0.8:
            return ["none", sub]
        if r < 0.9 and not cheap:
            return ["wmask", rng.choice([rng.randint(0, N), sorted(rng.sample(range(N + 1), 2))])]
        return [rng.choice(["presence", "absence"]), sub]
    r = rng.random()
    if r < 0.15:
        return ["not", rand_formula0(rng, N, depth - 1, cheap)]
    if r < 0.3:
        return ["only", rand_formula0(rng, N, depth - 1, cheap)]
    return [rng.choice(["and", "or", "xor"]), rand_formula0(rng, N, depth - 1, cheap),
            rand_formula0(rng, N, depth - 1, cheap)]


# --------------------------------------------------------------------------- dense oracle

def norm_marginals(marg, shape):
    ps = []
    for n, s in enumerate(shape):
        m = None if marg is None else marg[n]
        m = np.ones(s) if m is None else np.array(m, dtype=np.float64)
        ps.append(m / m.sum())
    return ps


def expect(y, ps):
    for n in range(y.ndim - 1, -1, -1):
        y = np.tensordot(y, ps[n], axes=([n], [0]))
    return float(y)


def anova_terms(x, ps):
    """f_S for every subset S (as a 0/1 tuple), each of the full shape"""
    N = x.ndim

    def E(y, n):
        sh = [1] * N; sh[n] = -1
        return np.broadcast_to((y * ps[n].reshape(sh)).sum(axis=n, keepdims=True), y.shape)
    terms = {}
    for b in itertools.product((0, 1), repeat=N):
        y = x.copy()
        for n in range(N):
            y = y - E(y, n) if b[n] else E(y, n)
        terms[b] = y
    return terms


MKINDS = ["none", "listnone", "mixed", "pos", "norm", "int"]


def rand_marginals(rng, shape, kind):
    if kind == "none":
        return None
    out = []
    for s in shape:
        if kind == "listnone" or (kind == "mixed" and rng.random() < 0.5):
            out.append(None)
        elif kind == "norm":
            v = [rng.randint(1, 4) for _ in range(s)]
            out.append([a / float(sum(v)) for a in v])
        else:
            out.append([rng.randint(1, 4) for _ in range(s)])
    return out


def torch_marginals(marg, kind):
    if marg is None:
        return None
    dt = torch.int64 if kind == "int" else torch.float64
    return [None if m is None else torch.tensor(m, dtype=dt) for m in marg]


def subset_formula(b, how, rng=None, plain=False):
    """a mask that selects exactly the subset b (0/1 tuple) of the variables.  plain: explicit masks are plain TT
    (truncate_anova(keepdim=False) enumerates the mask with automata.accepted_inputs, which reads TT cores only)"""
    N = len(b)
    S = [n for n in range(N) if b[n]]; C = [n for n in range(N) if not b[n]]
    if how == "only" and S:
        return ["only", ["presence", S]]
    if how == "explicit":
        # rank-1 explicit 0/1 tensor in a random format mix (delta at b)
        modes = []
        for n in range(N):
            e = [0, 1] if b[n] else [1, 0]
            kind, hasU = ("tt", False) if plain else rng.choice(KINDS)
            if hasU:
                U = [[1, 0], [0, 1]] if rng.random() < 0.5 else [[e[0]], [e[1]]]
                col = e if len(U[0]) == 2 else [1]
                core = [[[c] for c in col]] if kind == "tt" else [[c] for c in col]
                modes.append({"kind": kind, "core": core, "U": U})
            else:
                core = [[[c] for c in e]] if kind == "tt" else [[c] for c in e]
                modes.append({"kind": kind, "core": core, "U": None})
        return ["explicit", {"modes": modes}]
    f = None
    if S:
        f = ["all", S]
    if C:
        f = ["and", f, ["none", C]] if f else ["none", C]
    return f if f else ["true"]


def sel(N, b, dropped_index=0):
    """index that keeps the modes of b and takes one position along the others"""
    return tuple(slice(None) if b[n] else dropped_index for n in range(N))


class Prop:
    ID = "C10"
    LEVEL = "proof"
    COQ_HEADER = "From TN Require Import Harness.H_C10.\nFrom Coq Require Import QArith.\nOpen Scope Q_scope.\n"
    CHECK_FN = "check"
    RULE = ("tensors: enumerated format lattice ({TT,CP}x{U,no U} per mode) for N=1 (4), N=2 (16), N=3 (64, sampled in "
            "quick), seeded N=4; sizes 1..4 (size-1 modes included), ranks 1..3, zero tensors; marginals None / [None]*N / "
            "mixed / positive unnormalised / normalised / int64. Operations: 'extended' (the whole ANOVA tensor against "
            "all 2^N brute-force terms + sum-to-f, centred, orthogonality and variance additivity computed from the "
            "implementation's own output), 'undo' (with and without an all-true mask), 'term' (EVERY subset of the "
            "variables, selected by all()&none(), only(presence()) or an explicit delta tensor in a random format; via "
            "mask+undo, truncate_anova keepdim=True and keepdim=False), 'truncate' (random Boolean formulas, weight "
            "automata, explicit real weights; keepdim on/off where the mask is 0/1), 'session' (ONE extended tensor "
            "read 3..6 times in a row - undo, single terms, masks, the tensor itself, undo again - every read compared, "
            "so in-place/aliasing slips of undo/mask show). Non-trivial = result is not an "
            "error and not identically zero; distinct = distinct (op, via, formats, shape, mask, marginal kind).")
    TRUSTED = ["dense oracle harness/props/c10.py (NumPy brute-force ANOVA, Python truth-table semantics of masks)",
               "lib.dense_np decompression of explicit tensors"]
    ASSUMPTIONS = ["floating-point comparison at 1e-9 relative (inputs are small integers, results rational)",
                   "keepdim=False is only exercised with masks whose weights are non-negative integers "
                   "(accepted_inputs enumerates strings by multiplicity)",
                   "only(g) is generated only for g whose irrelevant variables are syntactically absent: when the "
                   "dependence cancels (e.g. only(weight_mask(4,[1,3]) ^ x0)) logic.relevant_symbols misjudges relevance "
                   "by rounding (norm ~1e-8 against a 1e-10 threshold) - a logic.py robustness defect outside this property",
                   "marginals are strictly positive torch vectors or None (as quantified)"]
    THEOREMS = ["C10_extended", "C10_undo", "C10_centred", "C10_reconstruct", "C10_truncate", "C10_term_depends_only",
                "C10_terms_orthogonal"]

    # ------------------------------------------------------------------ generation
    def generate(self, rng, tier):
        quick = tier == "quick"
        cases = []

        def shape_of(N):
            return [rng.choice([1, 2, 2, 3, 3, 4]) for _ in range(N)]

        def mk(op, t, marg, mkind, mask=None, **kw):
            N = len(t["modes"])
            tags = {"op": op, "formats": tsig(t), "N": N, "mkind": mkind,
                    "maskkind": "nomask" if mask is None else mask_kind(mask),
                    "mask_bool": True if mask is None else mask_is_bool(mask), "maskfmt": mask_format(mask),
                    "size1": 1 in tshape(t)}
            for k in ("via", "how", "zero", "subset_size", "nsteps"):
                if k in kw:
                    tags[k] = kw[k]
            c = {"op": op, "t": t, "marginals": marg, "mkind": mkind, "mask": mask, "tags": tags}
            c.update(kw)
            cases.append(c)

        def tensor(N, kinds=None, **kw):
            return rand_tensor_json(rng, shape_of(N), kinds, maxr=3, **kw)

        def marginals(t, kind=None):
            kind = kind or rng.choice(MKINDS)
            return rand_marginals(rng, tshape(t), kind), kind

        def some_mask(N, boolean=False):
            r = rng.random()
            if r < 0.5:
                return rand_formula(rng, N, rng.randint(1, 3))
            if r < 0.65:
                return ["wmask", rng.choice([rng.randint(0, N), sorted(rng.sample(range(N + 1), min(2, N + 1)))])]
            if r < 0.72:
                return ["one"]
            if boolean:
                return ["and", ["wmask", rng.randint(0, N)], rand_formula(rng, N, 1)]
            if r < 0.8:
                return ["weight"]
            if r < 0.95:
                return explicit_mask(rng, N)
            return ["scale", rng.choice([-2, 0.5, 3]), rand_formula(rng, N, 1)]

        VIAS = ["mask_undo", "truncate_keep", "truncate_drop"]
        # 1. lattice: extended tensor, undo, every subset as a single term
        for N in (1, 2, 3):
            for kinds in itertools.product(KINDS, repeat=N):
                if quick and N == 3 and rng.random() > 0.35:
                    continue
                t = tensor(N, list(kinds))
                marg, mkind = marginals(t)
                mk("extended", t, marg, mkind)
                mk("undo", t, marg, mkind, rng.choice([None, ["true"], ["or", ["any", None], ["none", None]]]))
                for b in itertools.product((0, 1), repeat=N):
                    how = rng.choice(["allnone", "only", "explicit"]); via = rng.choice(VIAS)
                    mk("term", t, marg, mkind, subset_formula(b, how, rng, via == "truncate_drop"), subset=list(b),
                       how=how, via=via, subset_size=sum(b))
                mk("truncate", t, marg, mkind, some_mask(N), via="mask_undo")
                mk("truncate", t, marg, mkind, some_mask(N, boolean=True), via=rng.choice(VIAS[1:]))
        # 2. one tensor per N: every subset x every route x both selectors
        for N in (1, 2, 3, 4):
            for rep in range(1 if quick else 4):
                t = tensor(N)
                marg, mkind = marginals(t, rng.choice(["none", "pos"]))
                for b in itertools.product((0, 1), repeat=N):
                    for via in VIAS:
                        how = rng.choice(["allnone", "only", "explicit"])
                        mk("term", t, marg, mkind, subset_formula(b, how, rng, via == "truncate_drop"),
                           subset=list(b), how=how, via=via, subset_size=sum(b))
        # 3. seeded
        for N, cnt in ((1, 40), (2, 160), (3, 300), (4, 250)):
            for _ in range(cnt if quick else cnt * 10):
                t = tensor(N)
                marg, mkind = marginals(t)
                r = rng.random()
                if r < 0.15:
                    mk("extended", t, marg, mkind)
                elif r < 0.25:
                    mk("undo", t, marg, mkind, rng.choice([None, ["true"]]))
                elif r < 0.5:
                    b = tuple(rng.randint(0, 1) for _ in range(N))
                    how = rng.choice(["allnone", "only", "explicit"]); via = rng.choice(VIAS)
                    mk("term", t, marg, mkind, subset_formula(b, how, rng, via == "truncate_drop"), subset=list(b),
                       how=how, via=via, subset_size=sum(b))
                elif r < 0.75:
                    mk("truncate", t, marg, mkind, some_mask(N), via=rng.choice(VIAS[:2]))
                else:
                    mk("truncate", t, marg, mkind, some_mask(N, boolean=True), via="truncate_drop")
        # 5. sessions: ONE extended tensor queried repeatedly (undo, terms, masks, undo again, the tensor itself):
        #    the extended tensor must keep containing every term whatever was read from it before
        for N, cnt in ((1, 8), (2, 40), (3, 50), (4, 20)):
            for _ in range(cnt if quick else cnt * 10):
                t = tensor(N)
                marg, mkind = marginals(t)
                steps = []
                for _k in range(rng.randint(2, 5)):
                    r = rng.random()
                    if r < 0.3:
                        steps.append({"kind": "undo"})
                    elif r < 0.65:
                        b = [rng.randint(0, 1) for _ in range(N)]
                        how = rng.choice(["allnone", "only", "explicit"])
                        steps.append({"kind": "mask", "mask": subset_formula(b, how, rng)})
                    elif r < 0.85:
                        steps.append({"kind": "mask", "mask": some_mask(N)})
                    else:
                        steps.append({"kind": "extended"})
                steps.append({"kind": rng.choice(["undo", "extended", "input"])})
                mk("session", t, marg, mkind, None, steps=steps, nsteps=len(steps))
        # 4. zero tensors
        for _ in range(6 if quick else 30):
            N = rng.randint(1, 3)
            t = tensor(N, zero=True)
            marg, mkind = marginals(t)
            mk("extended", t, marg, mkind, zero=True)
            mk("truncate", t, marg, mkind, some_mask(N, boolean=True), via=rng.choice(VIAS), zero=True)
        return cases

    # ------------------------------------------------------------------ implementation
    def run(self, case):
        try:
            t = to_tn(case["t"]); N = t.dim()
            marg = torch_marginals(case["marginals"], case["mkind"])
            op = case["op"]; via = case.get("via")
            m = None if case["mask"] is None else build_mask(case["mask"], N)
            if op == "session":
                a = tn.anova_decomposition(t, marginals=marg)
                outs = []
                for st in case["steps"]:
                    if st["kind"] == "undo":
                        r = tn.undo_anova_decomposition(a)
                    elif st["kind"] == "mask":
                        r = tn.undo_anova_decomposition(tn.mask(a, build_mask(st["mask"], N)))
                    elif st["kind"] == "extended":
                        r = a
                    else:
                        r = t
                    d = r.torch().detach().double()
                    outs.append({"shape": list(d.shape), "dense": d.reshape(-1).tolist()})
                return {"ok": True, "steps": outs}
            if op == "extended":
                r = tn.anova_decomposition(t, marginals=marg)
            elif op == "undo":
                a = tn.anova_decomposition(t, marginals=marg)
                if m is not None:
                    a = tn.mask(a, m)
                r = tn.undo_anova_decomposition(a)
            elif via == "mask_undo":
                r = tn.undo_anova_decomposition(tn.mask(tn.anova_decomposition(t, marginals=marg), m))
            elif via == "truncate_keep":
                r = tn.truncate_anova(t, m, keepdim=True, marginals=marg)
            elif via == "truncate_drop":
                r = tn.truncate_anova(t, m, keepdim=False, marginals=marg)
            else:
                raise ValueError(via)
            d = r.torch() if isinstance(r, tn.Tensor) else torch.as_tensor(r)
            d = d.detach().double()
            return {"ok": True, "shape": list(d.shape), "dense": d.reshape(-1).tolist()}
        except Exception as e:
            return {"ok": False, "err": type(e).__name__, "msg": str(e)[:200]}

    # ------------------------------------------------------------------ specification
    def expected(self, case):
        x = dense_np(case["t"]); N = x.ndim
        ps = norm_marginals(case["marginals"], x.shape)
        terms = anova_terms(x, ps)
        op = case["op"]; via = case.get("via")

        def extended():
            a = np.zeros([s + 1 for s in x.shape])
            for b, f in terms.items():
                dst = tuple(slice(1, None) if b[n] else 0 for n in range(N))
                a[dst] = f[sel(N, b)]
            return a
        if op == "session":
            outs = []
            for st in case["steps"]:
                if st["kind"] in ("undo", "input"):
                    d = x
                elif st["kind"] == "extended":
                    d = extended()
                else:
                    w = mask_fn(st["mask"], N)
                    d = np.zeros(x.shape)
                    for b, f in terms.items():
                        d = d + w(b) * f
                outs.append({"shape": list(d.shape), "dense": np.asarray(d, dtype=np.float64).reshape(-1).tolist()})
            return {"ok": True, "steps": outs}
        if op == "extended":
            d = extended()
        elif op == "undo":
            d = x
        else:
            if op == "term":
                w = lambda b, S=tuple(case["subset"]): 1.0 if tuple(b) == S else 0.0
            else:
                w = mask_fn(case["mask"], N)
            d = np.zeros(x.shape)
            for b, f in terms.items():
                d = d + w(b) * f
            if via == "truncate_drop":
                keep = [int(any(w(b) != 0 and b[n] for b in terms)) for n in range(N)]
                d = d[sel(N, keep)]
        d = np.asarray(d, dtype=np.float64)
        return {"ok": True, "shape": list(d.shape), "dense": d.reshape(-1).tolist()}

    # ------------------------------------------------------------------ comparison
    def agree(self, case, res, exp):
        if not res.get("ok"):
            return False, "implementation raised %s: %s" % (res.get("err"), res.get("msg"))
        if case["op"] == "session":
            for k, (r1, e1) in enumerate(zip(res["steps"], exp["steps"])):
                if r1["shape"] != e1["shape"]:
                    return False, "step %d (%s): shape %s, expected %s" % (k, case["steps"][k]["kind"], r1["shape"], e1["shape"])
                if not close(r1["dense"], e1["dense"], 1e-9):
                    return False, "step %d (%s) on the same ANOVA tensor differs from the brute force: %s vs %s" % (
                        k, case["steps"][k]["kind"], r1["dense"][:8], e1["dense"][:8])
            return True, ""
        if res["shape"] != exp["shape"]:
            return False, "shape %s, expected %s" % (res["shape"], exp["shape"])
        a = np.array(res["dense"], dtype=np.float64); b = np.array(exp["dense"], dtype=np.float64)
        if not close(a, b, 1e-9):
            return False, "values differ from the brute-force ANOVA: %s vs %s" % (res["dense"][:8], exp["dense"][:8])
        # laws checked on the implementation's own output
        x = dense_np(case["t"]); N = x.ndim
        ps = norm_marginals(case["marginals"], x.shape)
        tol = 1e-9 * max(1.0, float(np.max(np.abs(x))) if x.size else 1.0)
        a = a.reshape(res["shape"])
        if case["op"] == "extended":
            terms = {}
            for bb in itertools.product((0, 1), repeat=N):
                src = tuple(slice(1, None) if bb[n] else slice(0, 1) for n in range(N))
                terms[bb] = np.broadcast_to(a[src], x.shape)
            if not (np.max(np.abs(sum(terms.values()) - x), initial=0.0) <= tol * 2 ** N):
                return False, "the terms of the ANOVA tensor do not sum to the function"
            if not (abs(float(terms[(0,) * N].reshape(-1)[0]) - expect(x, ps)) <= tol):
                return False, "the empty term is not the mean"
            for bb, f in terms.items():
                for n in range(N):
                    if bb[n]:
                        mean_n = np.tensordot(f, ps[n], axes=([n], [0]))
                        if not (np.max(np.abs(mean_n), initial=0.0) <= tol):
                            return False, "term %s is not centred along mode %d" % (bb, n)
            var = {}
            for bb, f in terms.items():
                var[bb] = expect(f * f, ps) - expect(f, ps) ** 2
                for cc, g in terms.items():
                    if bb < cc and not (abs(expect(f * g, ps)) <= tol * max(1.0, float(np.max(np.abs(x))))):
                        return False, "terms %s and %s are not orthogonal" % (bb, cc)
            tot = expect(x * x, ps) - expect(x, ps) ** 2
            if not (abs(sum(var.values()) - tot) <= 1e-9 * max(1.0, abs(tot))):
                return False, "term variances sum to %s, total variance %s" % (sum(var.values()), tot)
        if case["op"] == "term" and case.get("via") != "truncate_drop":
            S = case["subset"]
            for n in range(N):
                if S[n]:
                    mean_n = np.tensordot(a, ps[n], axes=([n], [0]))
                    if not (np.max(np.abs(mean_n), initial=0.0) <= tol):
                        return False, "term is not centred along mode %d" % n
                else:
                    if not (np.max(np.abs(a - np.take(a, [0], axis=n)), initial=0.0) <= tol):
                        return False, "term depends on variable %d outside its subset" % n
        return True, ""

    def nontrivial(self, case, res):
        if not res.get("ok"):
            return False
        if "steps" in res:
            return any(abs(v) > 1e-12 for st in res["steps"] for v in st["dense"])
        return any(abs(v) > 1e-12 for v in res["dense"])

    def signature(self, case):
        t = case["tags"]
        return "%s;%s;%s;%s;%s;%s" % (t["op"], t.get("via"), t["formats"], tshape(case["t"]),
                                      json.dumps(case["mask"] if "steps" not in case else case["steps"])[:400],
                                      t["mkind"])

    def coq_term(self, case, res):
        from fractions import Fraction
        if not res.get("ok") or "dense" not in res:
            return None
        masked = case.get("mask") is not None
        if masked:
            if not (case["op"] == "undo" or case.get("via") in ("mask_undo", "truncate_keep")):
                return None
            try:
                mt = build_mask(case["mask"], len(case["t"]["modes"]))
            except Exception:
                return None
            if mt.dim() != len(case["t"]["modes"]) or any(int(x) != 2 for x in mt.shape) or mt.cores[-1].shape[-1] != 1 \
                    or mt.cores[0].shape[0] != 1 or max(max(c.shape) for c in mt.cores) > 8:
                return None
        elif case["op"] not in ("extended", "undo"):
            return None
        tj = case["t"]; shape = tshape(tj)
        marg = case["marginals"]
        ws = []
        for n, I in enumerate(shape):
            m = None if marg is None else marg[n]
            if m is None:
                w = [Fraction(1, I)] * I
            else:
                mm = [Fraction(x).limit_denominator(10 ** 6) for x in m]
                tot = sum(mm)
                if tot == 0:
                    return None
                w = [x / tot for x in mm]
            ws.append(coq_list(w, qlit, "Q"))
        lit = lambda x: qlit(Fraction(x))
        qd = lambda x: "(%d#%d)" % (round(x * 2 ** 40), 2 ** 40)
        if masked:
            lx = lambda x: qlit(Fraction(float(x)))
            return "mkCase (OTruncate %s [%s] %s) %s %s" % (coq_tensor(tj, lit, "Q"), "; ".join(ws), coq_tensor(from_tn(mt), lx, "Q"),
                                                           coq_natlist(res["shape"]), coq_list(res["dense"], qd, "Q"))
        opn = "OExtended" if case["op"] == "extended" else "OUndo"
        return "mkCase (%s %s [%s]) %s %s" % (opn, coq_tensor(tj, lit, "Q"), "; ".join(ws), coq_natlist(res["shape"]),
                                              coq_list(res["dense"], qd, "Q"))
