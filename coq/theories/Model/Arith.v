(* Models of the arithmetic kernels (Tensor.__add__, __mul__, scalar forms, _broadcast/repeat),
   at the level of semantic networks.  The format dispatch of the code (CP+CP stays CP, both
   factors present -> block core with concatenated factors, otherwise factors absorbed) is
   abstracted by [sem_mode]: all branches build the block-diagonal (resp. Kronecker) slices
   modelled here; the row/column sums applied to the first/last core are the all-ones
   boundary vectors of [eval]. No proofs in this file. *)
From TN Require Export Model.Format.

Section Arith.
Variable K : Ops.
Local Open Scope K_scope.
Notation net := (list (score K)).

(* Tensor.repeat on one mode: tile the mode k times *)
Definition rep_mode (k : nat) (c : score K) : score K :=
  reidx (fun i => i mod dm c)%nat (dm c * k)%nat c.

(* _broadcast: repeat counts; only size-1 modes are broadcast (other mismatches are errors) *)
Definition bc_count (sa sb : nat) : option nat :=
  if Nat.eqb sa sb then Some 1%nat else if Nat.eqb sa 1 then Some sb
  else if Nat.eqb sb 1 then Some 1%nat else None.

Fixpoint bcast (a b : net) : option (net * net) :=
  match a, b with
  | [], [] => Some ([], [])
  | x :: a', y :: b' =>
      match bc_count (dm x) (dm y), bc_count (dm y) (dm x), bcast a' b' with
      | Some kx, Some ky, Some (ra, rb) => Some (rep_mode kx x :: ra, rep_mode ky y :: rb)
      | _, _, _ => None
      end
  | _, _ => None
  end.

Definition add_net (a b : net) : option net :=
  match bcast a b with Some (a', b') => Some (zipbd a' b') | None => None end.

Definition mul_net (a b : net) : option net :=
  match bcast a b with Some (a', b') => Some (zipkr a' b') | None => None end.

Definition scale (c : K) (s : score K) : score K :=
  mkScore (rl s) (rr s) (dm s) (fun i p q => c * sl s i p q).

(* scalar multiplication: core n is scaled by phis[n]  (the code: |c|^(1/N), sign on core 0) *)
Fixpoint smul_net (phis : list K) (a : net) : net :=
  match phis, a with
  | f :: phis', s :: a' => scale f s :: smul_net phis' a'
  | _, _ => a
  end.

Definition first_scaled (c : K) (n : nat) : list K := c :: repeat 1 (n - 1).

(* the rank-one constant tensor built for scalar addition *)
Definition const_core (c : K) (d : nat) : score K := mkScore 1 1 d (fun _ _ _ => c).
Definition const_net (c : K) (sh : list nat) : net :=
  match sh with
  | [] => []
  | d :: sh' => const_core c d :: map (const_core 1) sh'
  end.

Definition sadd_net (c : K) (a : net) : option net := add_net a (const_net c (sshape a)).

Fixpoint prodl (l : list K) : K := match l with [] => 1 | x :: t => x * prodl t end.

(* expression trees *)
Inductive expr :=
| ELeaf (n : nat)
| EAdd (e1 e2 : expr) | ESub (e1 e2 : expr) | EMul (e1 e2 : expr)
| ENeg (e : expr)
| ESmul (c : K) (e : expr)      (* c * e  and  e * c *)
| ESadd (c : K) (e : expr)      (* c + e  and  e + c *)
| ERsub (c : K) (e : expr).     (* c - e *)

Definition neg1 : K := - (1).

Definition obind {A B} (x : option A) (f : A -> option B) : option B :=
  match x with Some a => f a | None => None end.

(* interpretation through the kernels, the way the operators of the code compose them:
   a - b = a + (-1)*b ; -a = (-1)*a ; c - a = (-1)*a + c *)
Fixpoint interp (env : nat -> net) (e : expr) : option net :=
  match e with
  | ELeaf n => Some (env n)
  | EAdd e1 e2 => obind (interp env e1) (fun a => obind (interp env e2) (fun b => add_net a b))
  | ESub e1 e2 => obind (interp env e1) (fun a => obind (interp env e2) (fun b =>
                    add_net a (smul_net (first_scaled neg1 (length b)) b)))
  | EMul e1 e2 => obind (interp env e1) (fun a => obind (interp env e2) (fun b => mul_net a b))
  | ENeg e1 => obind (interp env e1) (fun a => Some (smul_net (first_scaled neg1 (length a)) a))
  | ESmul c e1 => obind (interp env e1) (fun a => Some (smul_net (first_scaled c (length a)) a))
  | ESadd c e1 => obind (interp env e1) (fun a => sadd_net c a)
  | ERsub c e1 => obind (interp env e1) (fun a =>
                    sadd_net c (smul_net (first_scaled neg1 (length a)) a))
  end.

(* dense semantics: a shape and a function of the index, NumPy broadcasting of size-1 modes *)
Definition dval := (list nat * (list nat -> K))%type.
Fixpoint clip (sh idx : list nat) : list nat :=
  match sh, idx with
  | d :: sh', i :: idx' => (i mod d)%nat :: clip sh' idx'
  | _, _ => []
  end.
Fixpoint bshape (s1 s2 : list nat) : option (list nat) :=
  match s1, s2 with
  | [], [] => Some []
  | d1 :: s1', d2 :: s2' =>
      match bc_count d1 d2, bc_count d2 d1, bshape s1' s2' with
      | Some k1, Some _, Some r => Some ((d1 * k1)%nat :: r)
      | _, _, _ => None
      end
  | _, _ => None
  end.
Definition dbin (f : K -> K -> K) (x y : dval) : option dval :=
  match bshape (fst x) (fst y) with
  | Some s => Some (s, fun idx => f (snd x (clip (fst x) idx)) (snd y (clip (fst y) idx)))
  | None => None
  end.
Definition dmap (f : K -> K) (x : dval) : dval := (fst x, fun idx => f (snd x idx)).

Fixpoint dense_interp (env : nat -> dval) (e : expr) : option dval :=
  match e with
  | ELeaf n => Some (env n)
  | EAdd e1 e2 => obind (dense_interp env e1) (fun a => obind (dense_interp env e2) (dbin (radd K) a))
  | ESub e1 e2 => obind (dense_interp env e1) (fun a => obind (dense_interp env e2) (dbin (rsub K) a))
  | EMul e1 e2 => obind (dense_interp env e1) (fun a => obind (dense_interp env e2) (dbin (rmul K) a))
  | ENeg e1 => obind (dense_interp env e1) (fun a => Some (dmap (ropp K) a))
  | ESmul c e1 => obind (dense_interp env e1) (fun a => Some (dmap (rmul K c) a))
  | ESadd c e1 => obind (dense_interp env e1) (fun a => Some (dmap (radd K c) a))
  | ERsub c e1 => obind (dense_interp env e1) (fun a => Some (dmap (rsub K c) a))
  end.

End Arith.

Arguments rep_mode {K}. Arguments bcast {K}. Arguments add_net {K}. Arguments mul_net {K}.
Arguments scale {K}. Arguments smul_net {K}. Arguments first_scaled {K}.
Arguments const_core {K}. Arguments const_net {K}. Arguments sadd_net {K}. Arguments prodl {K}.
Arguments ELeaf {K}. Arguments EAdd {K}. Arguments ESub {K}. Arguments EMul {K}. Arguments ENeg {K}.
Arguments ESmul {K}. Arguments ESadd {K}. Arguments ERsub {K}.
Arguments interp {K}. Arguments dense_interp {K}. Arguments dbin {K}. Arguments dmap {K}.
Arguments neg1 {K}. Arguments obind {A B}.
