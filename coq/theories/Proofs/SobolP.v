From TN Require Export Model.Sobol.
From TN Require Import Proofs.ArithP Proofs.DotP Proofs.AnovaP Proofs.LogicP.
Section SobolP.
Variable K : Ops.
Hypothesis Kth : laws K.
Add Ring Kring : Kth.
Local Open Scope K_scope.
Notation net := (list (score K)).

Lemma lin_modes_is_all Ls : forall d's (cs : net), lin_modes Ls d's cs = lin_all K Ls d's cs.
Proof. induction Ls as [|L Ls IH]; intros [|d d's] [|c cs]; cbn [lin_modes lin_all]; auto; f_equal; apply IH. Qed.

(* range-restricted congruence for sums over index tuples *)
Lemma sumidx_ext_in ds : forall (f g : list nat -> K), (forall idx, in_range ds idx = true -> f idx = g idx) ->
  sumidx ds f = sumidx ds g.
Proof.
  induction ds as [|d ds IH]; intros f g H; cbn [sumidx]; [apply H; reflexivity|].
  apply sumn_ext. intros i Hi. apply IH. intros idx Hr. apply H. cbn [in_range].
  apply Nat.ltb_lt in Hi. rewrite Hi, Hr. reflexivity.
Qed.

(* dense effect of the two kinds of per-mode matrices *)
Fixpoint mprod (ws : list (nat -> K)) (idx : list nat) : K :=
  match ws, idx with w :: ws', i :: idx' => mvec w i * mprod ws' idx' | _, _ => 1 end.
Lemma dlin_diag ws : forall ds (F : list nat -> K) idx, length ds = length ws -> in_range ds idx = true ->
  dlin (map mmat ws) ds F idx = mprod ws idx * F idx.
Proof.
  induction ws as [|w ws IH]; intros [|d ds] F [|i idx] Hl Hr; try discriminate; cbn [map dlin mprod]; [ring|].
  cbn [in_range] in Hr. apply andb_true_iff in Hr. destruct Hr as [Hi Hr]. apply Nat.ltb_lt in Hi.
  rewrite (sumn_ext d _ (fun j => delta i j * (mvec w i * dlin (map mmat ws) ds (fun r => F (j :: r)) idx))).
  2:{ intros j _. unfold mmat. ring. }
  rewrite (sumn_delta Kth) by exact Hi. rewrite IH by (auto; cbn in Hl; lia). ring.
Qed.

Definition pat (idx : list nat) : list nat := map (fun i => Nat.min i 1) idx.
Lemma dlin_pat {A} (l : list A) : forall ds (F : list nat -> K) idx, length idx = length l ->
  ds = repeat 2%nat (length l) ->
  dlin (map (fun _ => pmat) l) ds F idx = F (pat idx).
Proof.
  induction l as [|x l IH]; intros ds F [|i idx] Hl Hd; try discriminate; subst ds; [reflexivity|].
  cbn [length map repeat dlin pat].
  rewrite (sumn_ext 2 _ (fun j => delta (Nat.min i 1) j * dlin (map (fun _ => @pmat K) l) (repeat 2%nat (length l)) (fun r => F (j :: r)) idx)).
  2:{ intros j _. unfold pmat, delta. rewrite (Nat.eqb_sym j). reflexivity. }
  rewrite (sumn_delta Kth) by (destruct i; cbn; lia). rewrite IH by (auto; cbn in Hl; lia). reflexivity.
Qed.

Lemma good_lin_modes Ls d's (cs : net) : good K cs -> length Ls = length cs -> length d's = length cs ->
  good K (lin_modes Ls d's cs) /\ sshape (lin_modes Ls d's cs) = d's.
Proof.
  intros [Hne Hc] H1 H2. rewrite lin_modes_is_all.
  destruct (lin_all_struct K Ls d's cs (hd_rl K cs) H1 H2) as (C & S & L & Hh).
  split; [split|exact S].
  - destruct (lin_all K Ls d's cs); [destruct cs; [congruence|discriminate]|discriminate].
  - destruct (lin_all K Ls d's cs) as [|a l] eqn:E; destruct cs as [|b cs]; try contradiction; try congruence.
    cbn [hd_rl] in *. rewrite Hh. rewrite <- E in C. rewrite E in C. exact (eq_trans C Hc).
Qed.

(* the rank-one tensor that is 1 at (0,...,0) and 0 elsewhere *)
Fixpoint origin1 (idx : list nat) : K := match idx with [] => 1 | i :: idx' => delta i O * origin1 idx' end.
Lemma origin_evalv sh : forall idx p, length idx = length sh -> evalv (origin_net sh) idx ones p = origin1 idx.
Proof.
  induction sh as [|d sh IH]; intros [|i idx] p Hl; try discriminate; [reflexivity|].
  cbn [origin_net map evalv vec_core rr sl origin1]. rewrite (sumn_1 Kth). fold (origin_net (K:=K) sh).
  rewrite IH by (cbn in Hl; lia). reflexivity.
Qed.
Lemma origin_sound sh : sh <> [] ->
  good K (origin_net sh) /\ sshape (origin_net (K:=K) sh) = sh /\
  forall idx, length idx = length sh -> eval (origin_net sh) idx = origin1 idx.
Proof.
  intros Hne. destruct sh as [|d sh]; [congruence|]. split; [split|split].
  - discriminate.
  - cbn [origin_net map hd_rl vec_core rl chain rr]. cbn [Nat.eqb andb].
    clear Hne. induction sh as [|e sh IHsh]; [reflexivity|]. cbn [map chain vec_core rl rr Nat.eqb andb]. exact IHsh.
  - unfold origin_net, sshape. rewrite map_map. cbn [vec_core dm]. apply map_id.
  - intros idx Hl. unfold eval. cbn [origin_net map vec_core rl]. rewrite (sumn_1 Kth).
    exact (origin_evalv (d :: sh) idx O Hl).
Qed.

Lemma same_shape_of_sshape (a : net) : forall b : net, sshape a = sshape b -> same_shape a b = true.
Proof.
  induction a as [|x a IH]; intros [|y b] H; try discriminate; [reflexivity|].
  cbn in H. injection H as H1 H2. cbn [same_shape]. rewrite H1, Nat.eqb_refl. apply IH. exact H2.
Qed.
Lemma good_chain1 (a : net) : good K a -> chain (match a with c :: _ => rl c | [] => 1%nat end) a = true.
Proof. intros [Hne Hc]. destruct a; [congruence|exact Hc]. Qed.

(* ---- the two inner products computed by sobol() ---- *)
Definition centred (A : list nat -> K) (n : nat) (e : list nat) : K := A e - origin1 e * A (zeros n).

Theorem sobol_parts_sound (ws : list (nat -> K)) (mask cs : net) num den :
  good K cs -> good K mask -> length ws = length cs -> length mask = length cs ->
  sshape mask = repeat 2%nat (length mask) ->
  sobol_parts ws mask cs = Some (num, den) ->
  let A := eval (anova_net ws cs) in
  let sh := map (fun c => S (dm c)) cs in
  num = sumidx sh (fun e => centred A (length cs) e * (mprod ws e * centred A (length cs) e * eval mask (pat e))) /\
  den = sumidx sh (fun e => centred A (length cs) e * (mprod ws e * centred A (length cs) e)).
Proof.
  intros Gc Gm Hw Hm Hsm H A sh. unfold sobol_parts, sobol_nets in H.
  assert (Lsh: length sh = length cs) by (unfold sh; apply map_length).
  (* the extended tensor *)
  assert (Ga0: good K (anova_net ws cs) /\ sshape (anova_net ws cs) = sh).
  { rewrite anova_is_lin_all by exact Hw. rewrite <- lin_modes_is_all.
    apply good_lin_modes; rewrite ?map_length; auto. }
  destruct Ga0 as [Ga0 Sa0]. assert (La0: length (anova_net ws cs) = length cs).
  { rewrite <- (sshape_length K), Sa0. exact Lsh. }
  assert (Hshne: sh <> []). { unfold sh. destruct cs; [destruct Gc; congruence|discriminate]. }
  destruct (centre (anova_net ws cs)) as [a|] eqn:Ec; [|discriminate]. cbn [obind2] in H.
  (* centring *)
  unfold centre in Ec. rewrite La0, Sa0 in Ec.
  destruct (origin_sound sh Hshne) as (Go & So & Eo).
  assert (Lcs: (0 < length cs)%nat) by (destruct cs; [destruct Gc; congruence|cbn; lia]).
  destruct (first_scaled_spec K Kth (neg1 * eval (anova_net ws cs) (zeros (length cs))) (length cs) Lcs) as [Lf Pf].
  assert (Lo: length (origin_net (K:=K) sh) = length cs). { unfold origin_net. rewrite map_length. exact Lsh. }
  destruct (smul_net_sound K Kth _ (origin_net sh) Go (eq_trans Lf (eq_sym Lo))) as (Gs & Ss & Es).
  destruct (add_net_sound K Kth _ _ a Ga0 Gs Ec) as (Ga & Ba & Ea).
  assert (Sa: sshape a = sh).
  { rewrite Sa0, Ss, So, bshape_same in Ba. injection Ba as <-. reflexivity. }
  assert (La: length a = length cs). { rewrite <- (sshape_length K), Sa. exact Lsh. }
  assert (Ea': forall e, in_range sh e = true -> eval a e = centred A (length cs) e).
  { intros e Hr. pose proof (in_range_length _ _ Hr) as Le. rewrite Ea by lia.
    rewrite Sa0, Ss, So, !clip_in_range by exact Hr.
    rewrite Es by lia. rewrite Pf.
    rewrite Eo by exact Le. unfold centred, A, neg1. ring. }
  (* weighting by the marginals *)
  set (am := weighted ws a) in *.
  assert (Gam: good K am /\ sshape am = sh).
  { unfold am, weighted. rewrite Sa. apply good_lin_modes; rewrite ?map_length; auto; lia. }
  destruct Gam as [Gam Sam].
  assert (Eam: forall e, in_range sh e = true -> eval am e = mprod ws e * centred A (length cs) e).
  { intros e Hr. pose proof (in_range_length _ _ Hr) as Le. unfold am, weighted. rewrite lin_modes_is_all.
    rewrite (lin_all_eval K Kth) by (rewrite ?map_length, ?(sshape_length K); try lia; apply (proj1 Ga)).
    rewrite Sa. rewrite dlin_diag by (auto; lia). rewrite Ea' by exact Hr. reflexivity. }
  (* the mask, re-indexed by presence / absence *)
  assert (Gme: good K (mask_ext mask sh) /\ sshape (mask_ext mask sh) = sh).
  { unfold mask_ext. apply good_lin_modes; rewrite ?map_length; auto; lia. }
  rewrite Sa in H. destruct Gme as [Gme Sme].
  assert (Eme: forall e, in_range sh e = true -> eval (mask_ext mask sh) e = eval mask (pat e)).
  { intros e Hr. pose proof (in_range_length _ _ Hr) as Le. unfold mask_ext. rewrite lin_modes_is_all.
    rewrite (lin_all_eval K Kth) by (rewrite ?map_length; try lia; apply (proj1 Gm)).
    apply dlin_pat; [lia | exact Hsm]. }
  destruct (mul_net am (mask_ext mask sh)) as [amm|] eqn:Em; [|discriminate]. cbn [obind2] in H.
  destruct (mul_net_sound K Kth _ _ amm Gam Gme Em) as (Gamm & Bamm & Eamm).
  assert (Samm: sshape amm = sh). { rewrite Sam, Sme, bshape_same in Bamm. injection Bamm as <-. reflexivity. }
  injection H as <- <-. split.
  - rewrite (dot_net_sound K Kth) by (try apply (proj1 Ga); try apply good_chain1; auto; apply same_shape_of_sshape; congruence).
    rewrite Sa. apply sumidx_ext_in. intros e Hr. pose proof (in_range_length _ _ Hr) as Le.
    rewrite Ea' by exact Hr. rewrite Eamm by (rewrite <- (sshape_length K), Samm; exact Le).
    rewrite Sam, Sme, !clip_in_range by exact Hr. rewrite Eam, Eme by exact Hr. ring.
  - rewrite (dot_net_sound K Kth) by (try apply (proj1 Ga); try apply good_chain1; auto; apply same_shape_of_sshape; congruence).
    rewrite Sa. apply sumidx_ext_in. intros e Hr. rewrite Ea', Eam by exact Hr. ring.
Qed.

(* ---------- ANOVA Parseval identity: E[F G] = sum over the extended index of mprod * (A F)(A G) ---------- *)
Fixpoint wprod (ws : list (nat -> K)) (x : list nat) : K :=
  match ws, x with w :: ws', i :: x' => w i * wprod ws' x' | _, _ => 1 end.
Fixpoint normalised (ws : list (nat -> K)) (ds : list nat) : Prop :=
  match ws, ds with
  | w :: ws', d :: ds' => sumn d w = 1 /\ normalised ws' ds'
  | [], [] => True
  | _, _ => False
  end.

Lemma parseval_1d (w f g : nat -> K) d : sumn d w = 1 ->
  sumn (S d) (fun e => mvec w e * (sumn d (fun j => amat w e j * f j) * sumn d (fun j => amat w e j * g j))) =
  sumn d (fun j => w j * (f j * g j)).
Proof.
  intros Hw. rewrite (sumn_S_front Kth). cbn [mvec amat].
  set (mf := sumn d (fun j => w j * f j)). set (mg := sumn d (fun j => w j * g j)).
  assert (Ef: forall e, sumn d (fun j => (delta e j - w j) * f j) = sumn d (fun j => delta e j * f j) - mf).
  { intros e. unfold mf. rewrite <- (sumn_sub Kth). apply sumn_ext; intros; ring. }
  assert (Eg: forall e, sumn d (fun j => (delta e j - w j) * g j) = sumn d (fun j => delta e j * g j) - mg).
  { intros e. unfold mg. rewrite <- (sumn_sub Kth). apply sumn_ext; intros; ring. }
  rewrite (sumn_ext d (fun i => w i * (sumn d (fun j => (delta i j - w j) * f j) * sumn d (fun j => (delta i j - w j) * g j)))
                      (fun i => w i * (f i * g i) - mg * (w i * f i) - mf * (w i * g i) + mf * mg * w i)).
  2:{ intros i Hi. rewrite Ef, Eg, !(sumn_delta Kth) by exact Hi. ring. }
  rewrite (sumn_add Kth), !(sumn_sub Kth), !(sumn_mul_l Kth). fold mf mg. rewrite Hw. ring.
Qed.

Theorem anova_parseval (ws : list (nat -> K)) : forall ds (F G : list nat -> K), normalised ws ds ->
  sumidx (map S ds) (fun e => mprod ws e * (dlin (map amat ws) ds F e * dlin (map amat ws) ds G e)) =
  sumidx ds (fun x => wprod ws x * (F x * G x)).
Proof.
  induction ws as [|w ws IH]; intros [|d ds] F G Hn; cbn in Hn; try contradiction; [cbn; ring|].
  destruct Hn as [Hw Hn]. cbn [map sumidx mprod dlin wprod].
  (* exchange the first extended index with the rest *)
  rewrite <- (sumidx_sumn Kth (map S ds) (S d)).
  rewrite (sumidx_ext (map S ds) _ (fun e' => mprod ws e' *
     sumn d (fun j => w j * (dlin (map amat ws) ds (fun r => F (j :: r)) e' * dlin (map amat ws) ds (fun r => G (j :: r)) e')))).
  2:{ intros e'. rewrite <- (parseval_1d w _ _ d Hw). rewrite <- (sumn_mul_l Kth). apply sumn_ext. intros e0 _. ring. }
  rewrite (sumidx_ext (map S ds) _ (fun e' => sumn d (fun j => w j * (mprod ws e' *
     (dlin (map amat ws) ds (fun r => F (j :: r)) e' * dlin (map amat ws) ds (fun r => G (j :: r)) e'))))).
  2:{ intros e'. rewrite <- (sumn_mul_l Kth). apply sumn_ext. intros; ring. }
  rewrite (sumidx_sumn Kth). apply sumn_ext. intros j _. rewrite (sumidx_mul_l Kth).
  rewrite (IH ds (fun r => F (j :: r)) (fun r => G (j :: r)) Hn). rewrite <- (sumidx_mul_l Kth).
  apply sumidx_ext. intros x. ring.
Qed.

(* the entry (0,...,0) of the extended tensor is the mean *)
Lemma dlin_zeros (ws : list (nat -> K)) : forall ds (F : list nat -> K), length ds = length ws ->
  dlin (map amat ws) ds F (zeros (length ws)) = sumidx ds (fun x => wprod ws x * F x).
Proof.
  induction ws as [|w ws IH]; intros [|d ds] F Hl; try discriminate; [cbn; ring|].
  cbn [length zeros repeat map dlin sumidx wprod amat]. apply sumn_ext. intros j _.
  change (repeat O (length ws)) with (zeros (length ws)). rewrite IH by (cbn in Hl; lia).
  rewrite <- (sumidx_mul_l Kth). apply sumidx_ext. intros; ring.
Qed.

(* sums against the indicator of the origin *)
Lemma sum_origin (ds : list nat) : forall (g : list nat -> K), Forall (fun d => (0 < d)%nat) ds ->
  sumidx ds (fun e => origin1 e * g e) = g (zeros (length ds)).
Proof.
  induction ds as [|d ds IH]; intros g Hp; [cbn; ring|]. inversion Hp as [|d0 l0 Hd Hp']; subst d0 l0.
  cbn [sumidx origin1 length zeros repeat].
  rewrite (sumn_ext d _ (fun i => delta O i * sumidx ds (fun idx => origin1 idx * g (i :: idx)))).
  2:{ intros i _. rewrite <- (sumidx_mul_l Kth). apply sumidx_ext. intros idx. unfold delta. rewrite (Nat.eqb_sym i). ring. }
  rewrite (sumn_delta Kth) by exact Hd. apply (IH (fun idx => g (O :: idx)) Hp').
Qed.
Lemma mprod_zeros (ws : list (nat -> K)) : mprod ws (zeros (length ws)) = 1.
Proof. induction ws as [|w ws IH]; [reflexivity|]. cbn [length zeros repeat mprod mvec]. fold (zeros (length ws)). rewrite IH. ring. Qed.
Lemma origin1_zeros n : origin1 (zeros n) = 1.
Proof. induction n as [|n IH]; [reflexivity|]. cbn [zeros repeat origin1]. fold (zeros n). rewrite IH. unfold delta. cbn. ring. Qed.

(* the denominator of sobol() is the variance E[f^2] - (E f)^2 of the dense function under the product measure *)
Theorem sobol_den_is_variance (ws : list (nat -> K)) ds (F : list nat -> K) : normalised ws ds -> length ds = length ws ->
  let A := dlin (map amat ws) ds F in
  sumidx (map S ds) (fun e => centred A (length ws) e * (mprod ws e * centred A (length ws) e)) =
  sumidx ds (fun x => wprod ws x * (F x * F x)) - sumidx ds (fun x => wprod ws x * F x) * sumidx ds (fun x => wprod ws x * F x).
Proof.
  intros Hn Hl A. rewrite <- (anova_parseval ws ds F F Hn). fold A.
  rewrite <- (dlin_zeros ws ds F Hl). fold A. set (A0 := A (zeros (length ws))).
  assert (Hp: Forall (fun d => (0 < d)%nat) (map S ds)) by (apply Forall_forall; intros d Hd; apply in_map_iff in Hd; destruct Hd as (x & <- & _); lia).
  assert (Lm: length (map S ds) = length ws) by (rewrite map_length; exact Hl).
  rewrite (sumidx_ext (map S ds) _ (fun e => mprod ws e * (A e * A e) - (A0 + A0) * (origin1 e * (mprod ws e * A e)) + A0 * A0 * (origin1 e * (origin1 e * mprod ws e)))).
  2:{ intros e. unfold centred. fold A0. ring. }
  rewrite (sumidx_add Kth). 
  rewrite (sumidx_ext (map S ds) (fun e => mprod ws e * (A e * A e) - (A0 + A0) * (origin1 e * (mprod ws e * A e)))
                      (fun e => mprod ws e * (A e * A e) + (- (A0 + A0)) * (origin1 e * (mprod ws e * A e)))) by (intros; ring).
  rewrite (sumidx_add Kth), !(sumidx_mul_l Kth).
  rewrite (sum_origin (map S ds) (fun e => mprod ws e * A e) Hp), (sum_origin (map S ds) (fun e => origin1 e * mprod ws e) Hp).
  rewrite Lm, mprod_zeros, origin1_zeros. fold A0. ring.
Qed.

(* ---------- grouping the extended index by the subset of variables it involves ---------- *)
Fixpoint patind (e al : list nat) : K :=
  match e, al with i :: e', a :: al' => delta (Nat.min i 1) a * patind e' al' | _, _ => 1 end.

Theorem group_by_subset (ds : list nat) : forall (g m : list nat -> K),
  sumidx (map S ds) (fun e => g e * m (pat e)) =
  sumidx (repeat 2%nat (length ds)) (fun al => m al * sumidx (map S ds) (fun e => patind e al * g e)).
Proof.
  induction ds as [|d ds IH]; intros g m; [cbn; ring|].
  cbn [map sumidx length repeat].
  rewrite (sumn_ext (S d) _ (fun e0 => sumidx (repeat 2%nat (length ds)) (fun al' =>
      m (Nat.min e0 1 :: al') * sumidx (map S ds) (fun e' => patind e' al' * g (e0 :: e'))))).
  2:{ intros e0 _. exact (IH (fun e' => g (e0 :: e')) (fun al' => m (Nat.min e0 1 :: al'))). }
  rewrite (sumn_ext 2 (fun a0 => sumidx (repeat 2%nat (length ds)) (fun al' => m (a0 :: al') *
             sumn (S d) (fun e0 => sumidx (map S ds) (fun e' => patind (e0 :: e') (a0 :: al') * g (e0 :: e')))))
          (fun a0 => sumn (S d) (fun e0 => sumidx (repeat 2%nat (length ds)) (fun al' =>
             delta (Nat.min e0 1) a0 * (m (a0 :: al') * sumidx (map S ds) (fun e' => patind e' al' * g (e0 :: e'))))))).
  2:{ intros a0 _. rewrite <- (sumidx_sumn Kth). apply sumidx_ext. intros al'. rewrite <- (sumn_mul_l Kth).
      apply sumn_ext. intros e0 _. cbn [patind].
      rewrite (sumidx_ext (map S ds) _ (fun e' => delta (Nat.min e0 1) a0 * (patind e' al' * g (e0 :: e')))) by (intros; ring).
      rewrite (sumidx_mul_l Kth). ring. }
  rewrite (sumn_exch Kth 2 (S d)). apply sumn_ext. intros e0 _.
  rewrite <- (sumidx_sumn Kth). apply sumidx_ext. intros al'.
  rewrite (sumn_delta Kth 2 (Nat.min e0 1) (fun a0 => m (a0 :: al') * sumidx (map S ds) (fun e' => patind e' al' * g (e0 :: e')))) by (destruct e0; cbn; lia).
  reflexivity.
Qed.

(* variance component of the subset al: the second moment of the ANOVA term, sum over the extended indices of pattern al *)
Definition component (ws : list (nat -> K)) (sh : list nat) (A : list nat -> K) (n : nat) (al : list nat) : K :=
  sumidx sh (fun e => patind e al * (centred A n e * (mprod ws e * centred A n e))).

(* numerator of sobol(): the mask-weighted sum of the variance components; denominator: all of them *)
Theorem sobol_num_by_subsets (ws : list (nat -> K)) (ds : list nat) (A m : list nat -> K) n :
  sumidx (map S ds) (fun e => centred A n e * (mprod ws e * centred A n e * m (pat e))) =
  sumidx (repeat 2%nat (length ds)) (fun al => m al * component ws (map S ds) A n al).
Proof.
  unfold component. rewrite <- (group_by_subset ds (fun e => centred A n e * (mprod ws e * centred A n e)) m).
  apply sumidx_ext. intros e. ring.
Qed.
Theorem sobol_den_by_subsets (ws : list (nat -> K)) (ds : list nat) (A : list nat -> K) n :
  sumidx (map S ds) (fun e => centred A n e * (mprod ws e * centred A n e)) =
  sumidx (repeat 2%nat (length ds)) (fun al => component ws (map S ds) A n al).
Proof.
  transitivity (sumidx (repeat 2%nat (length ds)) (fun al => 1 * component ws (map S ds) A n al)).
  2:{ apply sumidx_ext; intros; ring. }
  rewrite <- (sobol_num_by_subsets ws ds A (fun _ => 1) n). apply sumidx_ext. intros; ring.
Qed.

(* additivity over masks (hence over disjoint 0/1 masks) *)
Theorem sobol_num_additive (sh : list nat) (g m1 m2 : list nat -> K) :
  sumidx sh (fun e => g e * (m1 (pat e) + m2 (pat e))) = sumidx sh (fun e => g e * m1 (pat e)) + sumidx sh (fun e => g e * m2 (pat e)).
Proof. rewrite <- (sumidx_add Kth). apply sumidx_ext. intros; ring. Qed.

(* the mask "any variable" (1 everywhere except at the empty subset) gives numerator = denominator: index 1 *)
Lemma origin1_pat e : origin1 (pat e) = origin1 e.
Proof. induction e as [|i e IH]; [reflexivity|]. cbn [pat map origin1]. fold (pat e). rewrite IH. destruct i; reflexivity. Qed.
Lemma origin1_sq e : origin1 e * origin1 e = origin1 e.
Proof. induction e as [|i e IH]; cbn [origin1]; [ring|].
  transitivity ((delta i O * delta i O) * (origin1 e * origin1 e)); [ring|]. rewrite IH. unfold delta. destruct (Nat.eqb i O); ring. Qed.
Lemma origin1_at (A : list nat -> K) : forall e, origin1 e * A e = origin1 e * A (zeros (length e)).
Proof.
  assert (G: forall e (B : list nat -> K), origin1 e * B e = origin1 e * B (zeros (length e))).
  { induction e as [|i e IH]; intros B; [reflexivity|]. cbn [origin1 length zeros repeat]. fold (zeros (length e)).
    unfold delta. destruct (Nat.eqb_spec i O) as [->|Hne]; [|ring].
    transitivity (1 * (origin1 e * (fun r => B (O :: r)) e)); [ring|]. rewrite (IH (fun r => B (O :: r))). ring. }
  intros e. apply G.
Qed.
Theorem sobol_any_is_total (ws : list (nat -> K)) (sh : list nat) (A m : list nat -> K) :
  (forall al, m al = 1 - origin1 al) ->
  sumidx sh (fun e => centred A (length sh) e * (mprod ws e * centred A (length sh) e * m (pat e))) =
  sumidx sh (fun e => centred A (length sh) e * (mprod ws e * centred A (length sh) e)).
Proof.
  intros Hm. apply sumidx_ext_in. intros e Hr. rewrite Hm, origin1_pat.
  assert (Z: centred A (length sh) e * origin1 e = 0).
  { unfold centred. rewrite <- (in_range_length _ _ Hr).
    transitivity (origin1 e * A e - (origin1 e * origin1 e) * A (zeros (length e))); [ring|].
    rewrite origin1_sq, origin1_at. ring. }
  transitivity (centred A (length sh) e * (mprod ws e * centred A (length sh) e) - mprod ws e * centred A (length sh) e * (centred A (length sh) e * origin1 e)); [ring|].
  rewrite Z. ring.
Qed.
End SobolP.
