From TN Require Export Harness.HBase Sem.Fast.
From TN Require Export Model.SetItem.
From Coq Require Import QArith.
Inductive val := VScalar (c : Q) | VDense (data : list Q).    (* dense value: row-major data of the selected shape *)
Record zstep := mkStep { s_regs : list (nat * nat * nat); s_val : val }.    (* (start, step, count) per mode *)
Record case := mkCase { c_t : tensor QO; c_steps : list zstep; c_shape : list nat; c_dense : list Q }.
Definition to_reg (r : nat * nat * nat) : region := let '(a, b, c) := r in mkReg a b c.
Definition apply_step (cs : list (score QO)) (s : zstep) : option (list (score QO)) :=
  let regs := map to_reg (s_regs s) in
  match s_val s with
  | VScalar c => setitem_scalar (K:=QO) cs regs c
  | VDense data => setitem_tensor (K:=QO) cs regs (full_rank_tt (K:=QO) (map r_count regs) (fun k => nth k data 0%Q))
  end.
Fixpoint apply_all (cs : list (score QO)) (ss : list zstep) : option (list (score QO)) :=
  match ss with [] => Some cs | s :: ss' => obind (apply_step cs s) (fun r => apply_all r ss') end.
Definition check (c : case) : bool :=
  match apply_all (sem (c_t c)) (c_steps c) with
  | Some cs => shape_eqb (sshape cs) (c_shape c) && list_cmp cmpQ (dense_of (eval_l cs) (sshape cs)) (c_dense c)
  | None => false
  end.
