(* C08 -- run-level assembly of the interface invariants, and exact recovery.
   Part A: ring homomorphisms commute with the interface kernels (used to transport the ring-level theorem
           eval_arg_is_tensor_entry to the executable carrier QO, whose operations are Qred-normalised and therefore only
           lawful up to Qeq: the transport goes through Q2Qc : QO -> QcO).
   Part B: on QO, the argument of evaluate_function is Qeq to the dense entry of the given tensor.
   Part C: invariant of the whole replayed run: the stored interface matrices x_li / x_ri are lvec / rvec
           (= init_interfaces) of the CURRENT index sets; every recorded argument vector is the vector of dense entries at
           the requested points. *)
From TN Require Import Model.Cross Sem.Moves Sem.Fast Proofs.CrossP.
From Coq Require Import QArith Qcanon.
Local Open Scope nat_scope.

(* ================================================================== Part A *)
Section Hom.
Variables K1 K2 : Ops.
Variable h : K1 -> K2.
Hypothesis h0 : h (r0 K1) = r0 K2.
Hypothesis h1 : h (r1 K1) = r1 K2.
Hypothesis hadd : forall a b, h (radd K1 a b) = radd K2 (h a) (h b).
Hypothesis hmul : forall a b, h (rmul K1 a b) = rmul K2 (h a) (h b).

Lemma h_sumn n (f : nat -> K1) : h (sumn n f) = sumn n (fun i => h (f i)).
Proof. induction n; cbn [sumn]; [exact h0|]. rewrite hadd, IHn. reflexivity. Qed.

Definition hc (c : cdata K1) : cdata K2 :=
  match c with
  | CTT a s b g => CTT a s b (fun p j q => h (g p j q))
  | CCP s r g => CCP s r (fun j p => h (g j p))
  end.
Lemma hc_rl c : c_rl (hc c) = c_rl c. Proof. destruct c; reflexivity. Qed.
Lemma hc_rr c : c_rr (hc c) = c_rr c. Proof. destruct c; reflexivity. Qed.
Lemma hc_sl c i p q : c_sl (hc c) i p q = h (c_sl c i p q).
Proof. destruct c; cbn [hc c_sl]; [reflexivity|]. destruct (Nat.eqb p q); [reflexivity|symmetry; exact h0]. Qed.

Lemma vnth_maph v p : vnth (map h v) p = h (vnth v p).
Proof. unfold vnth. rewrite <- h0. apply map_nth. Qed.

Lemma h_matvec c i v : c_matvec (hc c) i (map h v) = map h (c_matvec c i v).
Proof.
  unfold c_matvec. rewrite map_map, hc_rl, hc_rr. apply map_ext. intros p. rewrite h_sumn.
  apply sumn_ext. intros q _. rewrite hmul, hc_sl, vnth_maph. reflexivity.
Qed.

Lemma h_vecmat u c i : c_vecmat (map h u) (hc c) i = map h (c_vecmat u c i).
Proof.
  unfold c_vecmat. rewrite map_map, hc_rl, hc_rr. apply map_ext. intros q. rewrite h_sumn.
  apply sumn_ext. intros p _. rewrite hmul, hc_sl, vnth_maph. reflexivity.
Qed.

Lemma map_repeat1 n : map h (repeat (r1 K1) n) = repeat (r1 K2) n.
Proof. induction n; cbn [repeat map]; [reflexivity|]. rewrite h1, IHn. reflexivity. Qed.

Lemma h_rvec cs : forall idx rN, rvec (map hc cs) idx rN = map h (rvec cs idx rN).
Proof.
  induction cs as [|c cs IH]; intros idx rN; cbn [map rvec]; [symmetry; apply map_repeat1|].
  destruct idx as [|i idx]; [symmetry; apply map_repeat1|]. rewrite IH. apply h_matvec.
Qed.

Lemma h_lvec cs idx r : lvec K2 (map hc cs) idx r = map h (lvec K1 cs idx r).
Proof.
  unfold lvec. rewrite <- map_repeat1. generalize (repeat (r1 K1) r) as u. revert idx.
  induction cs as [|c cs IH]; intros idx u; cbn [map combine fold_left]; [reflexivity|].
  destruct idx as [|i idx]; cbn [combine fold_left fst snd]; [reflexivity|].
  rewrite h_vecmat. apply IH.
Qed.

Lemma h_vdot n u v : vdot n (map h u) (map h v) = h (vdot n u v).
Proof. unfold vdot. rewrite h_sumn. apply sumn_ext. intros p _. rewrite hmul, !vnth_maph. reflexivity. Qed.

Lemma h_evalv cs : forall idx (v : nat -> K1) (v2 : nat -> K2) p, (forall q, v2 q = h (v q)) ->
  evalv (map (score_of K2) (map hc cs)) idx v2 p = h (evalv (map (score_of K1) cs) idx v p).
Proof.
  induction cs as [|c cs IH]; intros idx v v2 p Hv; cbn [map evalv]; [apply Hv|].
  destruct idx as [|i idx]; [apply Hv|]. cbn [score_of rr sl]. rewrite h_sumn, hc_rr.
  apply sumn_ext. intros q _. rewrite hmul, hc_sl. f_equal. apply IH. exact Hv.
Qed.

Lemma h_den cs idx :
  den (map (fun c => mkMode c None) (map hc cs)) idx = h (den (map (fun c => mkMode c None) cs) idx).
Proof.
  unfold den, sem. rewrite !map_map.
  change (fun x : cdata K1 => sem_mode (mkMode (hc x) None)) with (fun x : cdata K1 => score_of K2 (hc x)).
  change (fun x : cdata K1 => sem_mode (mkMode x None)) with (score_of K1).
  rewrite <- (map_map hc (score_of K2)).
  destruct cs as [|c cs]; cbn [map eval]; [symmetry; exact h1|].
  cbn [score_of rl]. rewrite hc_rl, h_sumn. apply sumn_ext. intros p _.
  apply (h_evalv (c :: cs) idx ones ones p). intros q. symmetry. exact h1.
Qed.

Lemma hc_chain cs : forall r, chain r (map (score_of K2) (map hc cs)) = chain r (map (score_of K1) cs).
Proof. induction cs as [|c cs IH]; intros r; cbn [map chain]; [reflexivity|].
  cbn [score_of rl rr]. rewrite hc_rl, hc_rr, IH. reflexivity. Qed.
Lemma hc_last_rr cs : forall r, last_rr r (map (score_of K2) (map hc cs)) = last_rr r (map (score_of K1) cs).
Proof. unfold last_rr. induction cs as [|c cs IH]; intros r; cbn [map fold_left]; [reflexivity|].
  cbn [score_of rr]. rewrite hc_rr. apply IH. Qed.
End Hom.

(* ================================================================== Part B *)
Lemma Q2Qc_add a b : Q2Qc (radd QO a b) = radd QcO (Q2Qc a) (Q2Qc b).
Proof. cbn [QO QcO radd]. apply Qc_is_canon. unfold Qcplus. cbn [this Q2Qc]. rewrite !Qred_correct. reflexivity. Qed.
Lemma Q2Qc_mul a b : Q2Qc (rmul QO a b) = rmul QcO (Q2Qc a) (Q2Qc b).
Proof. cbn [QO QcO rmul]. apply Qc_is_canon. unfold Qcmult. cbn [this Q2Qc]. rewrite !Qred_correct. reflexivity. Qed.

Notation hq := (hc QO QcO Q2Qc).
Notation modes cs := (map (fun c => mkMode c None) cs).

(* the argument of evaluate_function on the executable carrier is (Qeq) the dense entry of the tensor *)
Theorem eval_arg_is_entry_Q (pre post : list (cdata QO)) (c : cdata QO) (r0 : nat) (idxl idxr : list nat) (i : nat) :
  chain r0 (map (score_of QO) (pre ++ c :: post)) = true ->
  length idxl = length pre -> length post <= length idxr ->
  (vdot (c_rl c) (lvec QO pre idxl r0)
        (c_matvec c i (rvec post idxr (last_rr r0 (map (score_of QO) (pre ++ c :: post))))) ==
   den (modes (pre ++ c :: post)) (idxl ++ i :: idxr))%Q.
Proof.
  intros Hc Hl Hr. apply Q2Qc_eq_iff.
  pose proof (h_vdot QO QcO Q2Qc eq_refl Q2Qc_add Q2Qc_mul) as Hv.
  rewrite <- Hv. rewrite <- (h_lvec QO QcO Q2Qc eq_refl eq_refl Q2Qc_add Q2Qc_mul).
  rewrite <- (h_matvec QO QcO Q2Qc eq_refl Q2Qc_add Q2Qc_mul).
  rewrite <- (h_rvec QO QcO Q2Qc eq_refl eq_refl Q2Qc_add Q2Qc_mul).
  rewrite <- (h_den QO QcO Q2Qc eq_refl eq_refl Q2Qc_add Q2Qc_mul).
  rewrite <- (hc_last_rr QO QcO Q2Qc). rewrite <- (hc_rl QO QcO Q2Qc c).
  rewrite map_app. cbn [map].
  apply (eval_arg_is_tensor_entry QcO QcO_laws (map hq pre) (map hq post) (hq c) r0 idxl idxr i).
  - rewrite <- (hc_chain QO QcO Q2Qc) in Hc. rewrite map_app in Hc. exact Hc.
  - rewrite map_length. exact Hl.
  - rewrite map_length. exact Hr.
Qed.

(* ================================================================== Part C *)
Lemma qlist_eqb_F2 a b : qlist_eqb a b = true -> Forall2 Qeq a b.
Proof.
  unfold qlist_eqb. intros H. apply andb_true_iff in H. destruct H as [Hl H]. apply Nat.eqb_eq in Hl.
  revert b Hl H. induction a as [|x a IH]; intros [|y b] Hl H; try discriminate; [constructor|].
  cbn [combine forallb fst snd] in H. apply andb_true_iff in H. destruct H as [Hxy H].
  constructor; [apply Qeq_bool_iff; exact Hxy|]. apply IH; [cbn [length] in Hl; lia|exact H].
Qed.

Lemma F2_Qeq_shift (a b c : list Q) : Forall2 Qeq a b -> Forall2 Qeq a c -> Forall2 Qeq b c.
Proof.
  intros Hab. revert c. induction Hab as [|x y a b Hxy _ IH]; intros c Hac; inversion Hac; subst; constructor.
  - rewrite <- Hxy. assumption.
  - apply IH. assumption.
Qed.

Lemma rvec_trailing {K : Ops} (cs : list (cdata K)) : forall idx e rN, length idx = length cs ->
  rvec cs (idx ++ e) rN = rvec cs idx rN.
Proof.
  induction cs as [|c cs IH]; intros idx e rN H.
  - destruct idx; [|discriminate]. cbn [rvec app]. destruct e; reflexivity.
  - destruct idx as [|i idx]; [discriminate|]. cbn [app rvec]. rewrite IH by (cbn [length] in H; lia). reflexivity.
Qed.

Lemma last_rr_last_c {K : Ops} (cs : list (cdata K)) : forall r, cs <> [] ->
  last_rr r (map (score_of K) cs) = last_rr_c cs.
Proof.
  unfold last_rr_c. induction cs as [|c cs IH]; intros r H; [congruence|].
  destruct cs as [|c2 cs]; [reflexivity|].
  change (last_rr r (map (score_of K) (c :: c2 :: cs))) with (last_rr (c_rr c) (map (score_of K) (c2 :: cs))).
  rewrite IH by discriminate. reflexivity.
Qed.

Lemma list_split_at {A} (d : A) (l : list A) j : j < length l -> l = firstn j l ++ nth j l d :: skipn (S j) l.
Proof. intros H. rewrite <- (skipn_nth_cons d l j H). symmetry. apply firstn_skipn. Qed.

Lemma eval_args_points (c : cdata QO) (n Ij : nat) (fl : list nat -> list Q) (fr : list nat -> list Q)
      (E : list nat -> Q) (L R : rows) :
  (forall l i r, In l L -> In r R -> (vdot (K:=QO) n (fl l) (c_matvec c i (fr r)) == E (point l i r))%Q) ->
  c_rl c = n ->
  Forall2 Qeq (eval_args (K:=QO) c Ij (map fl L) (map fr R)) (map E (points L Ij R)).
Proof.
  intros H En. unfold eval_args, points. rewrite En.
  induction L as [|l L IHL]; cbn [map flat_map]; [constructor|].
  rewrite map_app. apply Forall2_app.
  - generalize (seq 0 Ij) as is_. induction is_ as [|i is_ IHi]; cbn [flat_map map]; [constructor|].
    rewrite map_app. apply Forall2_app; [|exact IHi].
    assert (HR : forall R', (forall r, In r R' -> In r R) ->
       Forall2 Qeq (map (fun r => vdot (K:=QO) n (fl l) (c_matvec c i r)) (map fr R')) (map E (map (fun r => point l i r) R'))).
    { induction R' as [|r R' IHR]; intros Hsub; cbn [map]; [constructor|].
      constructor; [apply H; [left; reflexivity|apply Hsub; left; reflexivity]|].
      apply IHR. intros r0 Hr0. apply Hsub. right. exact Hr0. }
    apply HR. auto.
  - apply IHL. intros l0 i r Hl0 Hr. apply H; [right; exact Hl0|exact Hr].
Qed.

Lemma forallb_combine_nth {A B} (f : A * B -> bool) (a : list A) (b : list B) da db k :
  forallb f (combine a b) = true -> length a = length b -> k < length a -> f (nth k a da, nth k b db) = true.
Proof.
  intros H Hl Hk. rewrite forallb_forall in H. apply H. rewrite <- combine_nth by exact Hl.
  apply nth_In. rewrite combine_length. lia.
Qed.

Section RunArgs.
Variable ts : list (list (cdata QO)).
Variable Is : list nat.
Variable ftab : list Q.
Notation N := (length Is).
Notation dcore := (@CTT QO 1 1 1 (fun _ _ _ => 0%Q)).

Definition wf_ts : Prop := forall k, k < length ts ->
  length (nth k ts []) = N /\ chain (first_rl_c (nth k ts [])) (map (score_of QO) (nth k ts [])) = true.
Definition entry (k : nat) (p : list nat) : Q := den (modes (nth k ts [])) p.

(* one entry of the argument vector, with the interfaces given by lvec / rvec of the index tuples *)
Lemma arg_entry (cs : list (cdata QO)) j l i r :
  length cs = N -> chain (first_rl_c cs) (map (score_of QO) cs) = true -> j < N ->
  lrow_ok Is j l -> rrow_ok Is j r ->
  (vdot (c_rl (nth j cs dcore)) (lvec QO (firstn j cs) (tl l) (first_rl_c cs))
        (c_matvec (nth j cs dcore) i (rvec (skipn (S j) cs) r (last_rr_c cs))) ==
   den (modes cs) (point l i r))%Q.
Proof.
  intros Hlen Hch Hj Hlo Hro. destruct Hlo as (d & l' & El & Hl). destruct Hro as (r' & d2 & Er & Hr). subst l r.
  assert (Hj' : j < length cs) by lia.
  pose proof (list_split_at dcore cs j Hj') as E.
  assert (Hll : length l' = length (firstn j cs)).
  { rewrite (Forall2_length' _ _ _ Hl), !firstn_length. lia. }
  assert (Hlr : length r' = length (skipn (S j) cs)).
  { rewrite (Forall2_length' _ _ _ Hr), !skipn_length. lia. }
  unfold point. cbn [tl]. rewrite removelast_last. rewrite rvec_trailing by exact Hlr.
  remember (firstn j cs) as pre. remember (nth j cs dcore) as c. remember (skipn (S j) cs) as post.
  rewrite E. rewrite E in Hch.
  rewrite <- (last_rr_last_c (pre ++ c :: post) (first_rl_c (pre ++ c :: post))) by (destruct pre; discriminate).
  apply eval_arg_is_entry_Q; [exact Hch|exact Hll|lia].
Qed.

Definition Lens (s : xst) : Prop :=
  length (x_ls s) = N /\ length (x_rs s) = N /\
  forall k, k < length ts -> length (nth k (x_li s) []) = N /\ length (nth k (x_ri s) []) = N.
Definition RVat (s : xst) (j : nat) : Prop := forall k, k < length ts ->
  nth j (nth k (x_ri s) []) [] =
  map (fun row => rvec (skipn (S j) (nth k ts [])) row (last_rr_c (nth k ts []))) (nth j (x_rs s) []).
Definition LVat (s : xst) (j : nat) : Prop := forall k, k < length ts ->
  nth j (nth k (x_li s) []) [] =
  map (fun l => lvec QO (firstn j (nth k ts [])) (tl l) (first_rl_c (nth k ts []))) (nth j (x_ls s) []).
Definition LR (s : xst) (log : list step) : Prop := forall k, k < length ts ->
  Forall2 Qeq (flat_map (fun sp => nth k (st_xs sp) []) log) (map (entry k) (rev (x_evals s))).
(* m = frontier of the left interfaces known to be valid (index 0 .. m) *)
Definition J (m : nat) (s : xst) (log : list step) : Prop :=
  x_ok s = true ->
  Lens s /\ (forall j, j < N -> RVat s j) /\ (forall j, j <= m -> j < N -> LVat s j) /\
  nth 0 (x_ls s) [] = [[0]] /\ LR s log.

Lemma J_weaken m m' s log : m' <= m -> J m s log -> J m' s log.
Proof. intros Hm HJ Hok. destruct (HJ Hok) as (A & B & C & D & E).
  split; [exact A|]. split; [exact B|]. split; [|split; assumption]. intros j Hj. apply C. lia. Qed.

Lemma evaluate_args j sp s : x_ok (fst (evaluate ts Is ftab j sp s)) = true -> forall k, k < length ts ->
  qlist_eqb (eval_args (nth j (nth k ts []) dcore) (nth j Is 0)
                       (nth j (nth k (x_li s) []) []) (nth j (nth k (x_ri s) []) []))
            (nth k (st_xs sp) []) = true.
Proof.
  unfold evaluate. cbv zeta. cbn [fst x_ok]. intros H k Hk.
  apply andb_true_iff in H. destruct H as [H _]. apply andb_true_iff in H. destruct H as [_ H].
  apply andb_true_iff in H. destruct H as [H HD]. apply andb_true_iff in H. destruct H as [_ HC].
  apply Nat.eqb_eq in HC.
  pose proof (forallb_combine_nth _ _ _ [] [] k HD HC) as Hn. cbn [fst snd] in Hn.
  rewrite map_length, seq_length in Hn. specialize (Hn Hk).
  rewrite (nth_map_seq_in _ [] (length ts) k Hk) in Hn. exact Hn.
Qed.

Lemma evaluate_J j sp s m log : wf_ts -> j < N -> j <= m -> inv Is s -> J m s log ->
  J m (fst (evaluate ts Is ftab j sp s)) (log ++ [sp]).
Proof.
  intros Hwf Hj Hjm Hinv HJ Hok'.
  destruct (evaluate_fields ts Is ftab j sp s) as (ERs & Els & Ers & Eli & Eri & _ & Eev & Hok & _).
  destruct (Hok Hok') as (Hs & _ & _).
  destruct (HJ Hs) as ((L1 & L2 & L3) & HRV & HLV & H0 & HLR).
  destruct (Hinv Hs) as ((HL & HR) & _ & _).
  unfold Lens, RVat, LVat. rewrite Els, Ers, Eli, Eri.
  split; [split; [exact L1|split; [exact L2|exact L3]]|]. split; [exact HRV|]. split; [exact HLV|]. split; [exact H0|].
  intros k Hk. rewrite Eev, rev_app_distr, rev_involutive, map_app, flat_map_app. cbn [flat_map]. rewrite app_nil_r.
  apply Forall2_app; [apply HLR; exact Hk|].
  pose proof (evaluate_args j sp s Hok' k Hk) as Hq. apply qlist_eqb_F2 in Hq.
  eapply F2_Qeq_shift; [exact Hq|].
  rewrite (HLV j Hjm Hj k Hk), (HRV j Hj k Hk). destruct (Hwf k Hk) as (Hlen & Hch).
  apply (eval_args_points _ (c_rl (nth j (nth k ts []) dcore))); [|reflexivity].
  intros l i r Hl Hr. apply arg_entry; auto.
Qed.

Lemma lrow_len j l : j <= N -> lrow_ok Is j l -> length l = S j.
Proof. intros Hj (d & l' & -> & Hl). cbn [length]. rewrite (Forall2_length' _ _ _ Hl), firstn_length. lia. Qed.

Lemma left_step_J j sp s m log : wf_ts -> S j < N -> j <= m -> inv Is s -> J m s log ->
  J (Nat.max m (S j)) (left_step ts Is ftab j sp s) (log ++ [sp]).
Proof.
  intros Hwf Hj Hjm Hinv HJ. assert (Hj0 : j < N) by lia.
  pose proof (evaluate_J j sp s m log Hwf Hj0 Hjm Hinv HJ) as HJ'.
  pose proof (evaluate_inv ts Is ftab j sp s Hj0 Hinv) as Hinv'.
  destruct (evaluate_fields ts Is ftab j sp s) as (ERs & Els & _ & _ & _ & _ & _ & Hok & _).
  unfold left_step. destruct (evaluate ts Is ftab j sp s) as [s' vals]. cbn [fst] in *.
  intros Hok'. cbn [x_ok] in Hok'.
  apply andb_true_iff in Hok'. destruct Hok' as [Hs' Hloc]. apply andb_true_iff in Hloc. destruct Hloc as [_ Hloc].
  destruct (HJ' Hs') as ((L1 & L2 & L3) & HRV & HLV & H0 & HLR). destruct (Hinv' Hs') as ((HL & HR) & _ & _).
  destruct (Hok Hs') as (_ & HlenL & _). rewrite <- Els, <- ERs in HlenL.
  unfold Lens, RVat, LVat, LR. cbn [x_ls x_rs x_li x_ri x_evals].
  split; [split; [rewrite upd_length; exact L1|split; [exact L2|]]|split; [exact HRV|split; [|split; [|exact HLR]]]].
  - intros k Hk. rewrite (nth_map_seq_in _ [] (length ts) k Hk). rewrite upd_length. apply L3. exact Hk.
  - intros j' Hj'm Hj' k Hk. rewrite (nth_map_seq_in _ [] (length ts) k Hk).
    destruct (L3 k Hk) as (Lli & _). destruct (Hwf k Hk) as (Hlen & _).
    destruct (Nat.eq_dec j' (S j)) as [->|Hne].
    + rewrite nth_upd_eq by lia. rewrite nth_upd_eq by lia.
      rewrite (HLV j Hjm Hj0 k Hk).
      rewrite (firstn_S_snoc dcore (nth k ts []) j) by lia.
      apply (lint_update_consistent QO).
      * intros l Hl. rewrite firstn_length, Hlen. replace (Nat.min j N) with j by lia.
        apply lrow_len; [lia|]. apply HL. exact Hl.
      * intros x Hx. pose proof (forallb_ltb _ _ Hloc x Hx) as Hx'. rewrite <- HlenL in Hx'.
        assert (nth j Is 0 <> 0) by (intros E0; rewrite E0 in Hx'; lia).
        apply Nat.div_lt_upper_bound; [assumption|]. rewrite Nat.mul_comm. exact Hx'.
    + rewrite !nth_upd_neq by exact Hne. apply HLV; [lia|exact Hj'|exact Hk].
  - rewrite nth_upd_neq by lia. exact H0.
Qed.

Lemma right_step_J j sp s m log : wf_ts -> 1 <= j -> j < N -> j <= m -> inv Is s -> J m s log ->
  J m (right_step ts Is ftab j sp s) (log ++ [sp]).
Proof.
  intros Hwf H1 Hj Hjm Hinv HJ.
  pose proof (evaluate_J j sp s m log Hwf Hj Hjm Hinv HJ) as HJ'.
  pose proof (evaluate_inv ts Is ftab j sp s Hj Hinv) as Hinv'.
  destruct (evaluate_fields ts Is ftab j sp s) as (ERs & _ & Ers & _ & _ & _ & _ & Hok & _).
  unfold right_step. destruct (evaluate ts Is ftab j sp s) as [s' vals]. cbn [fst] in *.
  destruct (match st_Q sp with [] => _ | _ :: _ => _ end) as [cores okc].
  intros Hok'. cbn [x_ok] in Hok'.
  apply andb_true_iff in Hok'. destruct Hok' as [Hok' _].
  apply andb_true_iff in Hok'. destruct Hok' as [Hs' Hloc]. apply andb_true_iff in Hloc. destruct Hloc as [_ Hloc].
  destruct (HJ' Hs') as ((L1 & L2 & L3) & HRV & HLV & H0 & HLR). destruct (Hinv' Hs') as ((HL & HR) & _ & _).
  destruct (Hok Hs') as (_ & _ & HlenR). rewrite <- Ers, <- ERs in HlenR.
  unfold Lens, RVat, LVat, LR. cbn [x_ls x_rs x_li x_ri x_evals].
  split; [split; [exact L1|split; [rewrite upd_length; exact L2|]]|split; [|split; [exact HLV|split; [exact H0|exact HLR]]]].
  - intros k Hk. rewrite (nth_map_seq_in _ [] (length ts) k Hk). rewrite upd_length. apply L3. exact Hk.
  - intros j' Hj' k Hk. rewrite (nth_map_seq_in _ [] (length ts) k Hk).
    destruct (L3 k Hk) as (_ & Lri). destruct (Hwf k Hk) as (Hlen & _).
    destruct (Nat.eq_dec j' (j - 1)) as [->|Hne].
    + rewrite nth_upd_eq by lia. rewrite nth_upd_eq by lia.
      rewrite (HRV j Hj k Hk). rewrite <- HlenR.
      replace (S (j - 1)) with j by lia.
      rewrite (skipn_nth_cons dcore (nth k ts []) j) by lia.
      apply (rint_update_consistent QO).
      intros x Hx. pose proof (forallb_ltb _ _ Hloc x Hx) as Hx'. rewrite <- HlenR in Hx'.
      apply Nat.mod_upper_bound. intros E0. rewrite E0 in Hx'. lia.
    + rewrite !nth_upd_neq by exact Hne. apply HRV; [exact Hj'|exact Hk].
Qed.

Lemma close_step_J sp s m log : wf_ts -> 0 < N -> inv Is s -> J m s log ->
  J m (close_step ts Is ftab sp s) (log ++ [sp]).
Proof.
  intros Hwf H0 Hinv HJ.
  pose proof (evaluate_J 0 sp s m log Hwf H0 ltac:(lia) Hinv HJ) as HJ'.
  unfold close_step. destruct (evaluate ts Is ftab 0 sp s) as [s' vals]. cbn [fst] in *.
  intros Hok'. cbn [x_ok] in Hok'. destruct (HJ' Hok') as (A & B & C & D & E).
  unfold Lens, RVat, LVat, LR in *. cbn [x_ls x_rs x_li x_ri x_evals]. auto.
Qed.

(* which left interfaces a schedule needs, given that indices 0..m are valid *)
Fixpoint fc (m : nat) (js : list (nat * nat)) : Prop :=
  match js with
  | [] => True
  | (0, j) :: js' => j <= m /\ fc (Nat.max m (S j)) js'
  | (1, j) :: js' => j <= m /\ fc m js'
  | _ :: js' => fc m js'
  end.

Lemma bad_state_J m (s : xst) log :
  J m (mkX (x_Rs s) (x_ls s) (x_rs s) (x_li s) (x_ri s) (x_cores s) (x_argmin s) (x_evals s) false) log.
Proof. intros H. discriminate H. Qed.

Lemma run_steps_J : forall js sps s m log, wf_ts -> Forall (sched_ok Is) js -> fc m js -> inv Is s -> J m s log ->
  J 0 (run_steps ts Is ftab js sps s) (log ++ sps).
Proof.
  induction js as [|[k j] js IH]; intros sps s m log Hwf Hs Hfc Hinv HJ.
  - destruct sps; cbn [run_steps]; [rewrite app_nil_r; apply (J_weaken m); [lia|exact HJ]|apply bad_state_J].
  - destruct sps as [|sp sps]; cbn [run_steps]; [apply bad_state_J|].
    inversion Hs as [|? ? Hkj Hrest]; subst. unfold sched_ok in Hkj. cbn [fst snd] in Hkj.
    replace (log ++ sp :: sps) with ((log ++ [sp]) ++ sps) by (rewrite <- app_assoc; reflexivity).
    destruct k as [|[|k]]; cbn [fc] in Hfc.
    + destruct Hfc as [Hjm Hfc]. apply (IH sps _ (Nat.max m (S j))); auto.
      * apply left_step_inv; assumption.
      * apply left_step_J; assumption.
    + destruct Hfc as [Hjm Hfc]. apply (IH sps _ m); auto.
      * apply right_step_inv; tauto.
      * apply right_step_J; tauto.
    + apply (IH sps _ m); auto.
      * apply close_step_inv; assumption.
      * apply close_step_J; assumption.
Qed.

Lemma fc_left rest : forall n a, fc (a + n) rest -> fc a (map (fun j => (0, j)) (seq a n) ++ rest).
Proof.
  induction n as [|n IH]; intros a H; cbn [seq map app].
  - rewrite Nat.add_0_r in H. exact H.
  - cbn [fc]. split; [lia|]. replace (Nat.max a (S a)) with (S a) by lia. apply IH.
    replace (S a + n) with (a + S n) by lia. exact H.
Qed.

Lemma fc_right m rest : forall l, (forall j, In j l -> j <= m) -> fc m rest -> fc m (map (fun j => (1, j)) l ++ rest).
Proof.
  induction l as [|j l IH]; intros Hl H; cbn [map app]; [exact H|].
  cbn [fc]. split; [apply Hl; left; reflexivity|]. apply IH; [intros; apply Hl; right; assumption|exact H].
Qed.

Lemma fc_schedule : 0 < N -> fc 0 (schedule Is).
Proof.
  intros H0. unfold schedule. apply (fc_left _ (N - 1) 0). apply fc_right; [|exact I].
  intros j Hj. apply in_rev in Hj. apply in_seq in Hj. lia.
Qed.

Lemma init_lint_nth0 (cs : list (cdata QO)) : nth 0 (init_lint cs) [] = [repeat 1%Q (first_rl_c cs)].
Proof. reflexivity. Qed.

Lemma fresh_interfaces_J Rs (ls rs : list rows) cores am evals ok log :
  wf_ts -> 0 < N -> length ls = N -> length rs = N -> nth 0 ls [] = [[0]] ->
  (forall k, k < length ts -> Forall2 Qeq (flat_map (fun sp => nth k (st_xs sp) []) log) (map (entry k) (rev evals))) ->
  J 0 (mkX Rs ls rs (map (fun cs => init_lint cs) ts) (map (fun cs => init_rint cs rs) ts) cores am evals ok) log.
Proof.
  intros Hwf H0 Hls Hrs Hl0 Hlog _. unfold Lens, RVat, LVat, LR. cbn [x_ls x_rs x_li x_ri x_evals].
  split; [split; [exact Hls|split; [exact Hrs|]]|split; [|split; [|split; [exact Hl0|exact Hlog]]]].
  - intros k Hk. destruct (Hwf k Hk) as (Hlen & _).
    rewrite (nth_map_lt _ ts k [] _ Hk).
    rewrite (nth_map_lt _ ts k [] _ Hk).
    unfold init_lint, init_rint. cbn [length]. rewrite repeat_length, map_length, seq_length. lia.
  - intros j Hj k Hk. destruct (Hwf k Hk) as (Hlen & _).
    rewrite (nth_map_lt _ ts k [] _ Hk). unfold init_rint.
    rewrite (nth_map_seq_in _ [] (length (nth k ts [])) j) by lia. reflexivity.
  - intros j Hj0 Hj k Hk. assert (j = 0) by lia. subst j.
    rewrite (nth_map_lt _ ts k [] _ Hk). rewrite init_lint_nth0, Hl0. reflexivity.
Qed.

Lemma do_kick_J kick rmax extra s m log : wf_ts -> 0 < N -> J m s log -> J 0 (do_kick ts Is kick rmax extra s) log.
Proof.
  intros Hwf H0 HJ. destruct kick as [k|]; cbn [do_kick]; [|apply (J_weaken m); [lia|exact HJ]].
  intros Hok. cbn [x_ok] in Hok. destruct (HJ Hok) as ((L1 & L2 & L3) & _ & _ & Hl0 & HLR).
  apply fresh_interfaces_J; auto.
  unfold kick_rsets. rewrite map_length, seq_length. reflexivity.
Qed.

Lemma init_state_J ranks randint : wf_ts -> 0 < N -> J 0 (init_state ts Is ranks randint) [].
Proof.
  intros Hwf H0. unfold init_state. cbv zeta. apply fresh_interfaces_J; auto.
  - unfold init_lsets. cbn [length]. rewrite repeat_length. lia.
  - unfold init_rsets. rewrite app_length, map_length, seq_length. cbn [length]. lia.
  - intros k Hk. constructor.
Qed.

Lemma run_iters_J kick rmax : forall its first s log, wf_ts -> 0 < N ->
  (forall it row, In it its -> In row (it_extra it) -> rrow_ok Is 0 row) ->
  inv Is s -> J 0 s log ->
  J 0 (run_iters ts Is ftab first kick rmax its s) (log ++ flat_map it_steps its).
Proof.
  induction its as [|it its IH]; intros first s log Hwf H0 Hex Hinv HJ; cbn [run_iters flat_map].
  - rewrite app_nil_r. exact HJ.
  - rewrite app_assoc.
    assert (Hinv1 : inv Is (if first then s else do_kick ts Is kick rmax (it_extra it) s)).
    { destruct first; [exact Hinv|]. apply do_kick_inv; [|exact Hinv]. intros row Hrow. apply (Hex it row); [left; reflexivity|exact Hrow]. }
    assert (HJ1 : J 0 (if first then s else do_kick ts Is kick rmax (it_extra it) s) log).
    { destruct first; [exact HJ|]. apply (do_kick_J _ _ _ _ 0); assumption. }
    apply IH; auto.
    + intros it' row Hit Hrow. apply (Hex it' row); [right; exact Hit|exact Hrow].
    + apply run_steps_inv; [apply schedule_ok; exact H0|exact Hinv1].
    + apply (run_steps_J _ _ _ 0); auto; [apply schedule_ok; exact H0|apply fc_schedule; exact H0].
Qed.

(* Whole run: the stored interface matrices are lvec / rvec (init_interfaces) of the current index sets, and every
   argument vector the implementation passed to the function (recorded in the steps, accepted by the replay) is, entry by
   entry and in order, the dense entry of the given tensor at the point the model requested; those points are in the grid. *)
Theorem run_arguments_are_entries ranks kick rmax randint its : 0 < N -> wf_ts ->
  (forall row, In row randint -> rrow_ok Is 0 row) ->
  (forall it row, In it its -> In row (it_extra it) -> rrow_ok Is 0 row) ->
  let s := cross_run ts Is ftab ranks kick rmax randint its in
  x_ok s = true ->
  (forall k, k < length ts ->
     Forall2 Qeq (flat_map (fun sp => nth k (st_xs sp) []) (flat_map it_steps its))
                 (map (fun p => den (modes (nth k ts [])) p) (rev (x_evals s)))) /\
  (forall p, In p (rev (x_evals s)) -> in_range Is p = true) /\
  (forall j, j < N -> RVat s j) /\ LVat s 0.
Proof.
  intros H0 Hwf Hrand Hex s Hok.
  assert (HJ : J 0 s ([] ++ flat_map it_steps its)).
  { unfold s, cross_run. apply run_iters_J; auto.
    - apply init_state_inv. exact Hrand.
    - apply init_state_J; assumption. }
  destruct (HJ Hok) as (_ & HRV & HLV & _ & HLR). cbn [app] in HLR.
  destruct (run_in_grid ts Is ftab ranks kick rmax randint its H0 Hrand Hex Hok) as (Hg & _ & _).
  split; [exact HLR|]. split; [|split; [exact HRV|apply HLV; lia]].
  intros p Hp. apply Hg. apply in_rev. exact Hp.
Qed.
End RunArgs.

(* non-vacuity: the recorded run of CrossP.run_in_grid_instance also satisfies wf_ts (its other hypotheses are
   discharged there), so run_arguments_are_entries applies to it *)
Example wf_ts_instance : wf_ts ex_ts [4;2].
Proof. intros k Hk. destruct k as [|[|k]]; cbn [ex_ts length] in Hk; try lia; split; reflexivity. Qed.
