From TN Require Export Harness.HBase Sem.Fast.
From TN Require Export Model.OrthoReplay.
From Coq Require Import QArith Qabs.
(* oracle replay for Tensor.orthogonalize(mu): the QR answers (and arguments) recorded from the implementation are
   fed to the model; the model's arguments must match the recorded ones and its final tensor must decompress to the
   implementation's. *)
Definition of_mode (m : mode QO) : cmode :=
  let c := core m in
  let a := tab3 (c_rl c) (c_sz c) (c_rr c) (fun p j q => c_sl c j p q) in
  mkCM a (match fac m with None => None | Some (di, s, U) => Some (tab2 di s U) end) (maxabs_q (a_dat a)).
Record case := mkCase { c_t : tensor QO; c_mu : nat; c_ans : list answer; c_shape : list nat; c_dense : list Q }.
Definition qtol5 : Q := 1 # 100000.
Definition cmp5 (x y : Q) : bool := Qle_bool (Qabs (x - y)) (qtol5 * (1 + Qabs x)).
Definition check (c : case) : bool :=
  let s := orthogonalize (c_mu c) (mkSt (map of_mode (cp_to_tt (c_t c))) (c_ans c) true) in
  let t' := to_tensor (s_modes s) in
  s_ok s && Nat.eqb (length (s_ans s)) 0 && shape_eqb (shape t') (c_shape c) &&
  list_cmp cmp5 (dense_of (eval_l (sem t')) (shape t')) (c_dense c).
