From TN Require Export Harness.HBase Sem.Fast.
From TN Require Export Model.Deriv.
From Coq Require Import QArith.
(* tn.partial(t, dims, order, bounds, periodic): per differentiated mode (mode, 1/step, periodic) *)
Record case := mkCase { c_t : tensor QO; c_order : nat; c_ds : list (nat * Q * bool); c_shape : list nat; c_dense : list Q }.
Definition dm_at (k : nat) (cs : list (score QO)) : nat := match nth_error cs k with Some c => dm c | None => O end.
Definition run (c : case) : list (score QO) :=
  fold_left (fun cs (d : nat * Q * bool) => let '(k, hinv, per) := d in
               partial_net (K:=QO) (c_order c) k (dm_at k cs) hinv per cs) (c_ds c) (sem (c_t c)).
Definition check (c : case) : bool :=
  let cs := run c in
  shape_eqb (sshape cs) (c_shape c) && list_cmp cmpQ (dense_of (eval_l cs) (sshape cs)) (c_dense c).
