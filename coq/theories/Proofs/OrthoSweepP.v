(* Tensor.orthogonalize(mu) at network level: left sweep over cores 0..mu-1, right sweep over cores N-1..mu+1, with the QR
   factorisation as an oracle satisfying its contract on every call.  The tensor is unchanged and the documented gauge
   holds: cores left of mu are left-orthonormal, cores right of mu are right-orthonormal. *)
From TN Require Export Proofs.SandwichP.
From TN Require Import Proofs.ArithP.
Section OrthoSweep.
Variable K : Ops.
Hypothesis Kth : laws K.
Add Ring Kring : Kth.
Local Open Scope K_scope.
Notation net := (list (score K)).
Variable qr : nat -> nat -> (nat -> nat -> K) -> nat * (nat -> nat -> K) * (nat -> nat -> K).
Hypothesis qr_ok : forall m n A, qr_exact qr m n A /\ qr_orthonormal qr m n A.

(* for i in range(0, n): left_orthogonalize(i) *)
Fixpoint lsweep (n : nat) (cs : net) : net :=
  match n, cs with
  | S n', c :: next :: rest => fst (left_step qr c next) :: lsweep n' (snd (left_step qr c next) :: rest)
  | _, _ => cs
  end.
(* for i in range(N-1, 0, -1): right_orthogonalize(i)   (everything except the head becomes right-orthonormal) *)
Fixpoint rsweep (cs : net) : net :=
  match cs with
  | prev :: ((_ :: _) as tl) =>
      match rsweep tl with
      | c2 :: rest2 => fst (right_step qr prev c2) :: snd (right_step qr prev c2) :: rest2
      | [] => cs
      end
  | _ => cs
  end.
Definition orthogonalize (mu : nat) (cs : net) : net :=
  let cs1 := lsweep mu cs in firstn mu cs1 ++ rsweep (skipn mu cs1).

(* shapes of one step *)
Lemma left_step_shape (c next : score K) :
  let cn := left_step qr c next in
  rl (fst cn) = rl c /\ dm (fst cn) = dm c /\ rr (fst cn) = rl (snd cn) /\ rr (snd cn) = rr next /\ dm (snd cn) = dm next.
Proof. unfold left_step. destruct (qr (rl c * dm c) (rr c) (left_unf c)) as [[k Q] R]. cbn. auto. Qed.
Lemma right_step_shape (prev c : score K) :
  let pc := right_step qr prev c in
  rl (fst pc) = rl prev /\ dm (fst pc) = dm prev /\ rr (fst pc) = rl (snd pc) /\ rr (snd pc) = rr c /\ dm (snd pc) = dm c.
Proof. unfold right_step. destruct (qr (dm c * rr c) (rl c) (right_unf_t c)) as [[k Q] R]. cbn. auto. Qed.

Lemma lsweep_struct (n : nat) : forall (cs : net) r, chain r cs = true ->
  chain r (lsweep n cs) = true /\ sshape (lsweep n cs) = sshape cs /\ last_rr r (lsweep n cs) = last_rr r cs.
Proof.
  induction n as [|n IH]; intros cs r Hc; [auto|].
  destruct cs as [|c [|next rest]]; cbn [lsweep]; auto.
  destruct (left_step_shape c next) as (A & B & C & D & E). cbv zeta in *.
  cbn [chain] in Hc. apply andb_true_iff in Hc. destruct Hc as [H1 Hc]. apply andb_true_iff in Hc. destruct Hc as [H2 Hc].
  set (cn := left_step qr c next) in *.
  assert (Hc': chain (rr (fst cn)) (snd cn :: rest) = true).
  { cbn [chain]. rewrite C, Nat.eqb_refl, D. exact Hc. }
  destruct (IH (snd cn :: rest) (rr (fst cn)) Hc') as (I1 & I2 & I3).
  repeat split.
  - cbn [chain]. rewrite A, H1, I1. reflexivity.
  - cbn [sshape map]. fold (sshape (lsweep n (snd cn :: rest))). rewrite I2. cbn [sshape map]. rewrite B, E. reflexivity.
  - change (last_rr r (fst cn :: lsweep n (snd cn :: rest))) with (last_rr (rr (fst cn)) (lsweep n (snd cn :: rest))).
    rewrite I3. change (last_rr r (c :: next :: rest)) with (last_rr (rr next) rest).
    change (last_rr (rr (fst cn)) (snd cn :: rest)) with (last_rr (rr (snd cn)) rest). rewrite D. reflexivity.
Qed.

Lemma lsweep_evalv (n : nat) : forall (cs : net) r idx v p, chain r cs = true -> in_range (sshape cs) idx = true ->
  (p < r)%nat -> evalv (lsweep n cs) idx v p = evalv cs idx v p.
Proof.
  induction n as [|n IH]; intros cs r idx v p Hc Hin Hp; [reflexivity|].
  destruct cs as [|c [|next rest]]; cbn [lsweep]; auto.
  destruct idx as [|i [|j idx]]; try (cbn in Hin; discriminate).
  { cbn in Hin. apply andb_true_iff in Hin. destruct Hin as [_ Hin]. cbn in Hin. discriminate. }
  destruct (left_step_shape c next) as (A & B & C & D & E). cbv zeta in *.
  cbn [chain] in Hc. apply andb_true_iff in Hc. destruct Hc as [H1 Hc]. apply andb_true_iff in Hc. destruct Hc as [H2 Hc].
  apply Nat.eqb_eq in H1, H2.
  cbn [sshape map in_range] in Hin. apply andb_true_iff in Hin. destruct Hin as [Hi Hin]. apply Nat.ltb_lt in Hi.
  pose proof (left_step_sound K Kth qr c next rest i j idx v p (proj1 (qr_ok _ _ _)) H2 Hi ltac:(lia)) as Hs.
  set (cn := left_step qr c next) in *. destruct cn as [c' next'] eqn:Ecn. cbn [fst snd] in *.
  rewrite <- Hs. cbn [evalv]. apply sumn_ext. intros q Hq. f_equal.
  apply (IH (next' :: rest) (rr c') (j :: idx) v q).
  - cbn [chain]. rewrite C, Nat.eqb_refl, D. exact Hc.
  - cbn [sshape map in_range]. rewrite E. exact Hin.
  - exact Hq.
Qed.

(* gauge after the left sweep: the first n cores are left-orthonormal and chained *)
Lemma lsweep_gauge (n : nat) : forall (cs : net) r, chain r cs = true -> (n < length cs)%nat ->
  lchain K r (firstn n (lsweep n cs)).
Proof.
  induction n as [|n IH]; intros cs r Hc Hn; [exact Logic.I|].
  destruct cs as [|c [|next rest]]; cbn [length] in Hn; try lia.
  cbn [lsweep firstn lchain].
  destruct (left_step_shape c next) as (A & B & C & D & E). cbv zeta in *.
  cbn [chain] in Hc. apply andb_true_iff in Hc. destruct Hc as [H1 Hc]. apply andb_true_iff in Hc. destruct Hc as [H2 Hc].
  apply Nat.eqb_eq in H1. repeat split.
  - rewrite A. exact H1.
  - apply (left_step_gauge K Kth qr). apply qr_ok.
  - apply IH; [|cbn [length]; lia]. cbn [chain]. rewrite C, Nat.eqb_refl, D. exact Hc.
Qed.

(* ---- the right sweep ---- *)
Lemma rsweep_struct (cs : net) : forall r, chain r cs = true ->
  chain r (rsweep cs) = true /\ sshape (rsweep cs) = sshape cs /\ last_rr r (rsweep cs) = last_rr r cs.
Proof.
  induction cs as [|prev tl IH]; intros r Hc; [auto|].
  destruct tl as [|c0 rest0]; [auto|].
  cbn [chain] in Hc. apply andb_true_iff in Hc. destruct Hc as [H1 Hc].
  destruct (IH (rr prev) Hc) as (I1 & I2 & I3).
  change (rsweep (prev :: c0 :: rest0)) with
    (match rsweep (c0 :: rest0) with
     | c2 :: rest2 => fst (right_step qr prev c2) :: snd (right_step qr prev c2) :: rest2
     | [] => prev :: c0 :: rest0 end).
  destruct (rsweep (c0 :: rest0)) as [|c2 rest2] eqn:E; [cbn in I2; discriminate|].
  destruct (right_step_shape prev c2) as (A & B & C & D & F). cbv zeta in *.
  cbn [chain] in I1. apply andb_true_iff in I1. destruct I1 as [J1 J2].
  repeat split.
  - cbn [chain]. rewrite A, H1, C, Nat.eqb_refl, D. exact J2.
  - cbn [sshape map] in *. rewrite B, F. injection I2 as K1 K2. rewrite K1. f_equal. f_equal. exact K2.
  - change (last_rr r (fst (right_step qr prev c2) :: snd (right_step qr prev c2) :: rest2))
      with (last_rr (rr (snd (right_step qr prev c2))) rest2).
    rewrite D. change (last_rr r (prev :: c0 :: rest0)) with (last_rr (rr prev) (c0 :: rest0)). rewrite <- I3. reflexivity.
Qed.

Lemma rsweep_evalv (cs : net) : forall r idx v p, chain r cs = true -> in_range (sshape cs) idx = true ->
  evalv (rsweep cs) idx v p = evalv cs idx v p.
Proof.
  induction cs as [|prev tl IH]; intros r idx v p Hc Hin; [reflexivity|].
  destruct tl as [|c0 rest0]; [reflexivity|].
  cbn [chain] in Hc. apply andb_true_iff in Hc. destruct Hc as [H1 Hc].
  destruct (rsweep_struct (c0 :: rest0) (rr prev) Hc) as (I1 & I2 & I3).
  change (rsweep (prev :: c0 :: rest0)) with
    (match rsweep (c0 :: rest0) with
     | c2 :: rest2 => fst (right_step qr prev c2) :: snd (right_step qr prev c2) :: rest2
     | [] => prev :: c0 :: rest0 end).
  destruct idx as [|i [|j idx]]; try (cbn in Hin; discriminate).
  { cbn in Hin. apply andb_true_iff in Hin. destruct Hin as [_ Hin]. cbn in Hin. discriminate. }
  cbn [sshape map in_range] in Hin. apply andb_true_iff in Hin. destruct Hin as [Hi Hin].
  specialize (IH (rr prev) (j :: idx) v). 
  destruct (rsweep (c0 :: rest0)) as [|c2 rest2] eqn:E; [cbn in I2; discriminate|].
  cbn [chain] in I1. apply andb_true_iff in I1. destruct I1 as [J1 J2]. apply Nat.eqb_eq in J1.
  cbn [sshape map] in I2. injection I2 as K1 K2.
  assert (Hj: (j < dm c2)%nat).
  { apply andb_true_iff in Hin. destruct Hin as [Hj _]. apply Nat.ltb_lt in Hj. rewrite K1. exact Hj. }
  pose proof (right_step_sound K Kth qr prev c2 rest2 i j idx v p (proj1 (qr_ok _ _ _)) (eq_sym J1) Hj) as Hs.
  destruct (right_step qr prev c2) as [prev' c'] eqn:Ers. cbn [fst snd]. rewrite Hs.
  cbn [evalv]. apply sumn_ext. intros q _. f_equal.
  change (sumn (rr c2) (fun q0 => sl c2 j q q0 * evalv rest2 idx v q0)) with (evalv (c2 :: rest2) (j :: idx) v q).
  apply IH; [exact Hc | exact Hin].
Qed.

Lemma rsweep_gauge (cs : net) : forall r, chain r cs = true -> last_rr r cs = 1%nat ->
  match rsweep cs with [] => True | h :: rest => rchain K (rr h) rest end.
Proof.
  induction cs as [|prev tl IH]; intros r Hc Hl; [exact Logic.I|].
  destruct tl as [|c0 rest0]; [cbn in *; exact Hl|].
  cbn [chain] in Hc. apply andb_true_iff in Hc. destruct Hc as [H1 Hc].
  destruct (rsweep_struct (c0 :: rest0) (rr prev) Hc) as (I1 & I2 & I3).
  specialize (IH (rr prev) Hc Hl).
  change (rsweep (prev :: c0 :: rest0)) with
    (match rsweep (c0 :: rest0) with
     | c2 :: rest2 => fst (right_step qr prev c2) :: snd (right_step qr prev c2) :: rest2
     | [] => prev :: c0 :: rest0 end).
  destruct (rsweep (c0 :: rest0)) as [|c2 rest2] eqn:E; [cbn in I2; discriminate|].
  destruct (right_step_shape prev c2) as (A & B & C & D & F). cbv zeta in *.
  cbn [rchain]. repeat split.
  - symmetry. exact C.
  - apply (right_step_gauge K Kth qr). apply qr_ok.
  - rewrite D. exact IH.
Qed.

(* ---- orthogonalize(mu) ---- *)
Lemma chain_app (a : net) : forall b r, chain r (a ++ b) = (chain r a && chain (last_rr r a) b)%bool.
Proof.
  induction a as [|x a IH]; intros b r; [reflexivity|]. cbn [app chain].
  change (last_rr r (x :: a)) with (last_rr (rr x) a). rewrite IH, andb_assoc. reflexivity.
Qed.
Lemma last_rr_app (a b : net) r : last_rr r (a ++ b) = last_rr (last_rr r a) b.
Proof. unfold last_rr. apply fold_left_app. Qed.
Lemma eval_chain1 (x : net) idx : x <> [] -> chain 1 x = true -> eval x idx = evalv x idx ones O.
Proof.
  intros Hne Hc. destruct x as [|c x]; [congruence|]. unfold eval. cbn [chain] in Hc.
  apply andb_true_iff in Hc. destruct Hc as [H _]. apply Nat.eqb_eq in H. rewrite H. cbn [sumn]. ring.
Qed.
Lemma in_range_split sh1 : forall sh2 idx, in_range (sh1 ++ sh2) idx = true ->
  in_range sh1 (firstn (length sh1) idx) = true /\ in_range sh2 (skipn (length sh1) idx) = true.
Proof.
  induction sh1 as [|d sh1 IH]; intros sh2 idx H; [cbn; auto|].
  destruct idx as [|i idx]; [discriminate|]. cbn [app in_range length firstn skipn] in *.
  apply andb_true_iff in H. destruct H as [H1 H2]. destruct (IH sh2 idx H2) as [A B]. rewrite H1, A. auto.
Qed.

Theorem orthogonalize_sound (mu : nat) (cs : net) idx :
  chain 1 cs = true -> last_rr 1 cs = 1%nat -> (mu < length cs)%nat -> in_range (sshape cs) idx = true ->
  eval (orthogonalize mu cs) idx = eval cs idx /\
  sshape (orthogonalize mu cs) = sshape cs /\
  lchain K 1 (firstn mu (orthogonalize mu cs)) /\
  match skipn mu (orthogonalize mu cs) with h :: rest => rchain K (rr h) rest | [] => False end.
Proof.
  intros Hc Hl Hmu Hin. unfold orthogonalize. set (cs1 := lsweep mu cs).
  destruct (lsweep_struct mu cs 1 Hc) as (C1 & S1 & L1). fold cs1 in C1, S1, L1.
  assert (Len1: length cs1 = length cs) by (rewrite <- !(sshape_length K), S1; reflexivity).
  assert (Lf: length (firstn mu cs1) = mu) by (apply firstn_length_le; lia).
  pose proof (firstn_skipn mu cs1) as Efs.
  rewrite <- Efs in C1. rewrite chain_app in C1. apply andb_true_iff in C1. destruct C1 as [Cf Ct].
  assert (Lt: last_rr (last_rr 1 (firstn mu cs1)) (skipn mu cs1) = 1%nat).
  { rewrite <- last_rr_app, Efs, L1. exact Hl. }
  destruct (rsweep_struct (skipn mu cs1) _ Ct) as (R1 & R2 & R3).
  assert (Hne_t: skipn mu cs1 <> []).
  { intros E. assert (H := skipn_length mu cs1). rewrite E in H. cbn in H. lia. }
  assert (Ssame: sshape (firstn mu cs1 ++ rsweep (skipn mu cs1)) = sshape cs).
  { rewrite <- S1. transitivity (sshape (firstn mu cs1 ++ skipn mu cs1)); [|rewrite Efs; reflexivity].
    unfold sshape. rewrite !map_app. f_equal. exact R2. }
  split; [|split; [exact Ssame|split]].
  - (* values *)
    assert (Hne_o: firstn mu cs1 ++ rsweep (skipn mu cs1) <> []).
    { intros E. apply app_eq_nil in E. destruct E as [_ E]. apply Hne_t.
      assert (H: sshape (rsweep (skipn mu cs1)) = []) by (rewrite E; reflexivity). rewrite R2 in H.
      destruct (skipn mu cs1); [reflexivity|discriminate]. }
    assert (Hne_c: cs <> []) by (destruct cs; [cbn in Hmu; lia|discriminate]).
    rewrite (eval_chain1 _ idx Hne_o) by (rewrite chain_app, Cf, R1; reflexivity).
    rewrite (eval_chain1 cs idx Hne_c Hc).
    rewrite <- (lsweep_evalv mu cs 1 idx ones O Hc Hin ltac:(lia)). fold cs1.
    (* split the index *)
    assert (Hin1: in_range (sshape (firstn mu cs1) ++ sshape (skipn mu cs1)) idx = true).
    { unfold sshape. rewrite <- map_app, Efs. fold (sshape cs1). rewrite S1. exact Hin. }
    destruct (in_range_split _ _ idx Hin1) as [Ha Hb]. rewrite (sshape_length K), Lf in Ha, Hb.
    rewrite <- (firstn_skipn mu idx).
    transitivity (evalv (firstn mu cs1 ++ skipn mu cs1) (firstn mu idx ++ skipn mu idx) ones O); [|rewrite Efs; reflexivity].
    assert (Li: length (firstn mu idx) = length (firstn mu cs1)).
    { rewrite (in_range_length _ _ Ha), (sshape_length K). reflexivity. }
    rewrite !(evalv_app K) by exact Li. apply (evalv_ext_v K). intros q.
    apply (rsweep_evalv (skipn mu cs1) _ (skipn mu idx) ones q Ct Hb).
  - (* left gauge *)
    rewrite firstn_app, Lf, Nat.sub_diag. cbn [firstn]. rewrite app_nil_r, firstn_firstn, Nat.min_id.
    apply lsweep_gauge; assumption.
  - (* right gauge *)
    rewrite skipn_app, Lf, Nat.sub_diag. cbn [skipn].
    rewrite (skipn_all2 (firstn mu cs1)) by lia. cbn [app].
    pose proof (rsweep_gauge (skipn mu cs1) _ Ct Lt) as G.
    destruct (rsweep (skipn mu cs1)) as [|h rest] eqn:E; [|exact G].
    cbn in R2. destruct (skipn mu cs1); [congruence|discriminate].
Qed.
End OrthoSweep.
