(* automata.py: weight_one_hot (shift matrices), weight_mask (last core summed over the requested
   columns), weight (2x2 accumulator matrices), accepted_inputs (prefix recursion with pruning).
   No proofs in this file. *)
From TN Require Export Model.Format.

Section Automata.
Variable K : Ops.
Local Open Scope K_scope.
Notation net := (list (score K)).

Fixpoint sumlist (l : list nat) : nat := match l with [] => O | x :: t => (x + sumlist t)%nat end.

(* core[:, 0, :] = eye(r); core[:, s, s:] = eye(r)[:, :-s]   i.e. core[p, s, q] = [q = p + s] *)
Definition shift_core (r ns : nat) : score K :=
  mkScore r r ns (fun s p q => if Nat.eqb q (p + s) then 1 else 0).
(* cores[0] = cores[0][0:1] *)
Definition shift_first (r ns : nat) : score K :=
  mkScore 1 r ns (fun s _ q => if Nat.eqb q s then 1 else 0).

Definition one_hot_net (r : nat) (nss : list nat) : net :=
  match nss with
  | [] => []
  | ns :: rest => shift_first r ns :: map (shift_core r) rest
  end.

Fixpoint count_occ_nat (w : list nat) (q : nat) : nat :=
  match w with [] => O | x :: t => ((if Nat.eqb x q then 1 else 0) + count_occ_nat t q)%nat end.
Fixpoint of_nat (n : nat) : K := match n with O => 0 | S k => of_nat k + 1 end.

(* t.cores[-1] = sum(t.cores[-1][:, :, weight], dim=2, keepdim=True)  with r = max(weight)+1 *)
Definition sel_cols (w : list nat) : nat -> nat -> K := fun q _ => of_nat (count_occ_nat w q).
Fixpoint on_last {A} (f : A -> A) (l : list A) : list A :=
  match l with [] => [] | [x] => [f x] | x :: t => x :: on_last f t end.
Definition weight_mask_net (w : list nat) (nss : list nat) : net :=
  let r := S (fold_right Nat.max O w) in
  on_last (fun c => rmulM c (sel_cols w) 1) (one_hot_net r nss).

(* tn.weight_mask: weight = torch.unique(weight) first (a weight listed twice counts once; the sorted order
   of torch.unique is irrelevant to the column sum) *)
Definition weight_mask_u (w : list nat) (nss : list nat) : net :=
  weight_mask_net (nodup Nat.eq_dec w) nss.

(* weight: core = eye(2) repeated, core[1, :, 0] = arange(ns);  first row 1, last column 0 *)
Definition acc_core (ns : nat) : score K :=
  mkScore 2 2 ns (fun s p q => if Nat.eqb p q then 1 else if (Nat.eqb p 1 && Nat.eqb q 0)%bool then of_nat s else 0).
Definition acc_first (ns : nat) : score K :=
  mkScore 1 2 ns (fun s _ q => if Nat.eqb q 0 then of_nat s else 1).
Definition acc_last (ns : nat) : score K :=
  mkScore 2 1 ns (fun s p _ => if Nat.eqb p 0 then 1 else of_nat s).
Definition acc_only (ns : nat) : score K := mkScore 1 1 ns (fun s _ _ => of_nat s).
Fixpoint weight_tail (nss : list nat) : net :=
  match nss with
  | [] => []
  | [ns] => [acc_last ns]
  | ns :: rest => acc_core ns :: weight_tail rest
  end.
Definition weight_net (nss : list nat) : net :=
  match nss with
  | [] => []
  | [ns] => [acc_only ns]
  | ns :: rest => acc_first ns :: weight_tail rest
  end.

End Automata.
Arguments shift_core {K}. Arguments shift_first {K}. Arguments one_hot_net {K}.
Arguments of_nat {K}. Arguments sel_cols {K}. Arguments on_last {A}. Arguments weight_mask_net {K}. Arguments weight_mask_u {K}.
Arguments acc_core {K}. Arguments acc_first {K}. Arguments acc_last {K}. Arguments acc_only {K}.
Arguments weight_tail {K}. Arguments weight_net {K}.

(* accepted_inputs, over the integers.  [left] is the row vector accumulated along the prefix;
   [rights cs] is the chain of summed cores used by the code to count completions. *)
From TN Require Import Alg.Inst.
Definition ZS := score ZO.
Fixpoint rights (cs : list ZS) : nat -> Z :=
  match cs with
  | [] => fun _ => 1%Z
  | c :: cs' => fun p => sumn (K:=ZO) (rr c) (fun q => (sumn (K:=ZO) (dm c) (fun i => sl c i p q) * rights cs' q)%Z)
  end.
Definition vm (n : nat) (left : nat -> Z) (M : nat -> nat -> Z) : nat -> Z :=
  fun q => sumn (K:=ZO) n (fun p => (left p * M p q)%Z).
Definition dotv (n : nat) (u v : nat -> Z) : Z := sumn (K:=ZO) n (fun p => (u p * v p)%Z).

Fixpoint acc (cs : list ZS) (r : nat) (left : nat -> Z) : list (list nat) :=
  match cs with
  | [] => repeat [] (Z.to_nat (dotv r left (fun _ => 1%Z)))
  | c :: cs' =>
      flat_map (fun i =>
        let left' := vm (rl c) left (sl c i) in
        (* per_point[i] = left . core[:, i, :] . rights[mu+1];  c[i] == c[i+1]  <->  per_point[i] = 0 *)
        if Z.eqb (dotv (rr c) left' (rights cs')) 0 then []
        else map (cons i) (acc cs' (rr c) left')) (seq 0 (dm c))
  end.
Definition accepted_inputs (cs : list ZS) : list (list nat) :=
  match cs with [] => [] | c :: _ => acc cs (rl c) (fun _ => 1%Z) end.
