(* The kernel models over the reals satisfy the hypotheses of GenDerivP: the generated divergence / curl / laplacian
   are thereby theorems about (model kernels o generated compositions), down to the dense stencil. *)
From TN Require Import Alg.InstR Proofs.ArithP Proofs.GenInst Proofs.GenDerivP Proofs.GenGradP Proofs.DerivP Proofs.DerivSumP
  Proofs.SumNetsP Proofs.ToolsP Gen.Generated.
From Coq Require Import List Lia.
Import ListNotations.

Section GenDerivInst.
Variable sh : list nat.
Hypothesis sh_ne : sh <> [].
Notation net := (list (score RO)).
Open Scope R_scope.
Notation okR := (okR sh).
Notation inr i := (in_range sh i = true).

(* tn.partial(t, d, order=o, bounds=b), non-periodic: hinv = 1/step of mode d is what the bounds pair determines *)
Definition msize (a : net) (d : nat) : nat := match nth_error a d with Some c => dm c | None => O end.
Definition r_partial (a : net) (d o : nat) (hinv : R) : net := partial_net (K:=RO) o d (msize a d) hinv false a.
Definition r_pysum (l : list net) : net := match py_sum RO l with Some r => r | None => [] end.

(* the dense side: the stencil along mode d applied o times *)
Definition stencil1 (d : nat) (hinv : R) (f : list nat -> R) (idx : list nat) : R :=
  hinv * sumn (K:=RO) (nth d sh O) (fun j => stencil_np (K:=RO) (nth d sh O) (nth d idx O) j * f (upd d idx j)).
Fixpoint Dn (d o : nat) (hinv : R) (f : list nat -> R) : list nat -> R :=
  match o with O => f | S k => stencil1 d hinv (Dn d k hinv f) end.

Lemma in_range_upd : forall (s idx : list nat) d j, in_range s idx = true -> (j < nth d s O)%nat ->
  in_range s (upd d idx j) = true.
Proof.
  induction s as [|e s IH]; intros [|i idx] d j H Hj; cbn in *; try discriminate; auto.
  - destruct d; cbn in Hj; lia.
  - apply andb_true_iff in H. destruct H as [H1 H2]. destruct d as [|d]; cbn [upd in_range nth] in *.
    + apply andb_true_iff. split; [apply Nat.ltb_lt; exact Hj|exact H2].
    + apply andb_true_iff. split; [exact H1|apply IH; assumption].
Qed.

Lemma nth_error_nth_len {A} (l : list A) d (x : A) : (d < length l)%nat -> nth_error l d = Some (nth d l x).
Proof. revert d. induction l as [|y l IH]; intros [|d] H; cbn in *; try lia; auto. apply IH. lia. Qed.

Lemma msize_sh (a : net) d : sshape a = sh -> (d < length sh)%nat ->
  exists c, nth_error a d = Some c /\ dm c = nth d sh O /\ msize a d = nth d sh O.
Proof.
  intros S Hd. unfold msize.
  destruct (nth_error a d) as [c|] eqn:E.
  - exists c. split; [reflexivity|].
    assert (H: dm c = nth d sh O).
    { rewrite <- S. unfold sshape. pose proof (map_nth_error dm d a E) as M.
      apply (nth_error_nth _ _ O) in M. symmetry. exact M. }
    auto.
  - exfalso. apply nth_error_None in E. rewrite <- S in Hd. unfold sshape in Hd. rewrite map_length in Hd. lia.
Qed.

Lemma okR_partial a d o (b : R) : okR a -> (d < length sh)%nat ->
  okR (r_partial a d o b) /\ forall i, inr i -> eval (r_partial a d o b) i = Dn d o b (eval a) i.
Proof.
  intros [Ga Sa] Hd. unfold r_partial.
  destruct (msize_sh a d Sa Hd) as (c & Hc & Dc & Ms). rewrite Ms.
  induction o as [|o IH]; cbn [partial_net Dn].
  - split; [split; assumption|]. reflexivity.
  - destruct IH as [[Go So] Eo].
    destruct (partial_good RO o d (nth d sh O) b false a c Hc Dc Ga) as (_ & _ & c' & Hc' & Dc').
    destruct (partial1_good RO d (nth d sh O) b false _ c' Hc' Dc' Go) as [G1 S1].
    split; [split; [exact G1|congruence]|].
    intros i Hi.
    assert (Li: nth_error i d = Some (nth d i O)).
    { apply nth_error_nth_len. rewrite (in_range_length _ _ Hi). exact Hd. }
    rewrite (partial1_sound RO RO_laws d (nth d sh O) b false _ c' i (nth d i O) Hc' Li Dc').
    unfold stencil1. apply (f_equal (Rmult b)). apply (sumn_ext (K:=RO)). intros j Hj. apply (f_equal (Rmult _)).
    apply Eo. apply in_range_upd; assumption.
Qed.

Lemma add_net_defined (a b : net) : okR a -> okR b -> exists c, add_net a b = Some c.
Proof.
  intros [Ga Sa] [Gb Sb].
  destruct (bcast_defined RO a b sh) as (a' & b' & E); [rewrite Sa, Sb; apply bshape_same|].
  eexists. unfold add_net. rewrite E. reflexivity.
Qed.

Lemma add_all_defined (l : list net) : forall acc, okR acc -> Forall okR l -> exists r, add_all RO acc l = Some r.
Proof.
  induction l as [|x l IH]; intros acc Ha Hl; cbn [add_all]; [eexists; reflexivity|].
  inversion Hl as [|y l0 Hx Hl']; subst.
  destruct (add_net_defined acc x Ha Hx) as (c & E). rewrite E.
  apply IH; [|exact Hl'].
  destruct Ha as [Ga Sa], Hx as [Gx Sx].
  destruct (add_net_sound RO RO_laws acc x c Ga Gx E) as (G & B & _).
  rewrite Sa, Sx, bshape_same in B. injection B as B. split; [exact G|congruence].
Qed.

Lemma okR_pysum (l : list net) : l <> [] -> Forall okR l ->
  okR (r_pysum l) /\ forall i, inr i -> eval (r_pysum l) i = fold_right (fun (x : net) acc => eval x i + acc) 0 l.
Proof.
  intros Hne Hl. unfold r_pysum.
  assert (D: exists r, py_sum RO l = Some r).
  { destruct l as [|x l]; [congruence|]. inversion Hl as [|y l0 Hx Hl']; subst. cbn [py_sum].
    destruct Hx as [Gx Sx].
    destruct (sadd_net (K:=RO) (r0 RO) x) as [s|] eqn:Es.
    - apply add_all_defined; [|exact Hl'].
      destruct (sadd_net_sound RO RO_laws _ x s Gx Es) as (G & S & _). split; [exact G|congruence].
    - exfalso.
      destruct (const_net_sound RO RO_laws (r0 RO) (sshape x) (sshape_ne RO x (proj1 Gx))) as (Gc & Sc & _).
      destruct (bcast_defined RO x (const_net (K:=RO) (r0 RO) (sshape x)) (sshape x)) as (a' & b' & E);
        [rewrite Sc; apply bshape_same|].
      unfold sadd_net, add_net in Es. rewrite E in Es. discriminate. }
  destruct D as (r & E). rewrite E.
  assert (Hl2: Forall (fun x => good RO x /\ sshape x = sh) l) by exact Hl.
  destruct (py_sum_sound RO RO_laws l r sh Hl2 E) as (G & S & Ev).
  split; [split; assumption|]. intros i Hi. rewrite Ev by exact Hi.
  clear. induction l as [|x l IH]; cbn [sum_evals fold_right]; [reflexivity|]. rewrite IH. reflexivity.
Qed.

(* sequences of tensors are lists; ts[k] = nth k ts [] *)
Definition s_nth (ts : list net) (k : nat) : net := nth k ts [].

Notation g_curl := (gen_derivatives_curl_P net (r_add) (r_smul) (list net) s_nth (nat -> R) R (fun b n => b n) r_partial).
Notation g_lap := (gen_derivatives_laplacian_P net (@length _) (nat -> R) R (fun b n => b n) r_partial r_pysum).
Notation g_div := (gen_derivatives_divergence_P net (list net) s_nth (@length _) (nat -> R) R (fun b n => b n) r_partial r_pysum).

Theorem curl_spec (t0 t1 t2 : net) (hinv : nat -> R) : length sh = 3%nat -> okR t0 -> okR t1 -> okR t2 ->
  exists c0 c1 c2, g_curl [t0; t1; t2] hinv = [c0; c1; c2] /\ okR c0 /\ okR c1 /\ okR c2 /\
  forall i, inr i ->
    eval c0 i = Dn 1 1 (hinv 1%nat) (eval t2) i - Dn 2 1 (hinv 2%nat) (eval t1) i /\
    eval c1 i = Dn 2 1 (hinv 2%nat) (eval t0) i - Dn 0 1 (hinv 0%nat) (eval t2) i /\
    eval c2 i = Dn 0 1 (hinv 0%nat) (eval t1) i - Dn 1 1 (hinv 1%nat) (eval t0) i.
Proof.
  intros L H0 H1 H2.
  exact (gen_curl_spec net r_add r_smul (list net) s_nth (nat -> R) R (fun b n => b n) r_partial (@eval RO) sh okR Dn
           (okR_add sh) (okR_smul sh) okR_partial [t0; t1; t2] hinv L H0 H1 H2).
Qed.

Theorem laplacian_spec (t : net) (hinv : nat -> R) : okR t ->
  okR (g_lap t hinv) /\ forall i, inr i ->
    eval (g_lap t hinv) i = sum_upto (length sh) (fun n => Dn n 2 (hinv n) (eval t) i).
Proof.
  intros Ht.
  apply (gen_laplacian_spec net (@length _) (nat -> R) R (fun b n => b n) r_partial r_pysum (@eval RO) sh okR Dn
           okR_partial okR_pysum t hinv Ht); [|exact sh_ne].
  destruct Ht as [_ S]. rewrite <- S. symmetry. apply (sshape_length RO).
Qed.

Theorem divergence_spec (ts : list net) (hinv : nat -> R) : length ts = length sh -> Forall okR ts ->
  okR (g_div ts hinv) /\ forall i, inr i ->
    eval (g_div ts hinv) i = sum_upto (length sh) (fun n => Dn n 1 (hinv n) (eval (s_nth ts n)) i).
Proof.
  intros L Hts.
  apply (gen_divergence_spec net (list net) s_nth (@length _) (nat -> R) R (fun b n => b n) r_partial r_pysum (@eval RO) sh okR Dn
           okR_partial okR_pysum ts hinv L sh_ne).
  intros n Hn. unfold s_nth. rewrite Forall_forall in Hts. apply Hts. apply nth_In. lia.
Qed.
(* gradient over a list of modes.  Default bounds of mode d are [0, shape_d]; partial() turns a pair [lo, hi] into the
   step (hi - lo) / (shape_d + 1) * 2, so the default 1/step of mode d is (shape_d + 1) / (2 shape_d) *)
Definition r_default (t : net) (d : nat) : R := (INR (msize t d) + 1) / (2 * INR (msize t d)).
Notation g_gradN := (gen_derivatives_gradient_N net R r_partial r_default).
Notation g_gradB := (gen_derivatives_gradient_B net R r_partial).

Theorem gradient_default_spec (t : net) (dim : list nat) : okR t -> Forall (fun d => (d < length sh)%nat) dim ->
  length (g_gradN t dim) = length dim /\
  forall k d, nth_error dim k = Some d ->
    exists c, nth_error (g_gradN t dim) k = Some c /\ okR c /\
      forall i, inr i -> eval c i = Dn d 1 ((INR (nth d sh O) + 1) / (2 * INR (nth d sh O))) (eval t) i.
Proof.
  intros Ht Hd.
  destruct (gen_gradient_N_spec net R r_partial r_default (@eval RO) sh okR Dn okR_partial t dim Ht Hd) as [L H].
  split; [exact L|]. intros k d Hk. destruct (H k d Hk) as (c & Hc & Oc & Ec). exists c. split; [exact Hc|split; [exact Oc|]].
  intros i Hi. rewrite (Ec i Hi). unfold r_default.
  rewrite Forall_forall in Hd. assert (Hlt: (d < length sh)%nat) by (apply Hd; eapply nth_error_In; eauto).
  destruct Ht as [_ St]. destruct (msize_sh t d St Hlt) as (_ & _ & _ & Ms). rewrite Ms. reflexivity.
Qed.

Theorem gradient_bounds_spec (t : net) (dim : list nat) (hs : list R) : okR t -> length hs = length dim ->
  Forall (fun d => (d < length sh)%nat) dim ->
  length (g_gradB t dim hs) = length dim /\
  forall k d h, nth_error dim k = Some d -> nth_error hs k = Some h ->
    exists c, nth_error (g_gradB t dim hs) k = Some c /\ okR c /\
      forall i, inr i -> eval c i = Dn d 1 h (eval t) i.
Proof.
  intros Ht Hl Hd.
  exact (gen_gradient_B_spec net R r_partial (@eval RO) sh okR Dn okR_partial t dim hs Ht Hl Hd).
Qed.
End GenDerivInst.
