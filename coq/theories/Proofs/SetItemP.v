From TN Require Export Proofs.AnovaP.
From TN Require Export Model.SetItem.
From TN Require Export Proofs.ArithP Proofs.LogicP.
Section SetItemP.
Variable K : Ops.
Hypothesis Kth : laws K.
Add Ring Kring : Kth.
Local Open Scope K_scope.
Notation net := (list (score K)).

Lemma lin_each_is_all Ls : forall d's (cs : net), lin_each Ls d's cs = lin_all K Ls d's cs.
Proof. induction Ls as [|L Ls IH]; intros [|d d's] [|c cs]; cbn [lin_each lin_all]; auto; try (f_equal; apply IH). Qed.

(* diagonal indicators: entries outside the region are zeroed *)
Lemma dlin_dmat (regs : list region) : forall sh (F : list nat -> K) idx, in_range sh idx = true ->
  length regs = length sh ->
  dlin (map dmat regs) sh F idx = if all_in regs idx then F idx else 0.
Proof.
  induction regs as [|r regs IH]; intros [|d sh] F [|i idx] Hr Hl; try discriminate; [reflexivity|].
  cbn [in_range] in Hr. apply andb_true_iff in Hr. destruct Hr as [Hi Hr]. apply Nat.ltb_lt in Hi.
  cbn [map dlin all_in].
  rewrite (sumn_ext d _ (fun j => delta i j * ((if in_reg r i then 1 else 0) * dlin (map dmat regs) sh (fun r' => F (j :: r')) idx))).
  2:{ intros j _. unfold dmat, delta. destruct (Nat.eqb i j); cbn [andb]; ring. }
  rewrite (sumn_delta Kth) by exact Hi. rewrite IH by (auto; simpl in Hl; lia).
  destruct (in_reg r i); cbn [andb]; [ring|ring].
Qed.

Lemma in_reg_pos (r : region) i a : (0 < r_step r)%nat -> (a < r_count r)%nat ->
  i = (r_start r + a * r_step r)%nat -> in_reg r i = true /\ pos_reg r i = a.
Proof.
  intros Hs Ha ->. unfold in_reg, pos_reg.
  replace (r_start r + a * r_step r - r_start r)%nat with (a * r_step r)%nat by lia.
  rewrite Nat.mod_mul, Nat.div_mul by lia. split; [|reflexivity].
  apply andb_true_iff. split; [apply andb_true_iff; split|].
  - apply Nat.leb_le. lia.
  - apply Nat.eqb_refl.
  - apply Nat.ltb_lt. exact Ha.
Qed.

Lemma in_reg_inv (r : region) i : (0 < r_step r)%nat -> in_reg r i = true ->
  i = (r_start r + pos_reg r i * r_step r)%nat /\ (pos_reg r i < r_count r)%nat.
Proof.
  intros Hs H. unfold in_reg in H. apply andb_true_iff in H. destruct H as [H H3].
  apply andb_true_iff in H. destruct H as [H1 H2]. apply Nat.leb_le in H1. apply Nat.eqb_eq in H2.
  apply Nat.ltb_lt in H3. unfold pos_reg. split; [|exact H3].
  assert (E := Nat.div_mod (i - r_start r) (r_step r) ltac:(lia)). rewrite H2 in E. nia.
Qed.

(* embedding of the value: an entry in the region reads the value at its position, others read zero *)
Lemma dlin_emat (regs : list region) : forall (V : list nat -> K) idx,
  Forall (fun r => (0 < r_step r)%nat) regs -> length idx = length regs ->
  dlin (map emat regs) (map r_count regs) V idx = if all_in regs idx then V (all_pos regs idx) else 0.
Proof.
  induction regs as [|r regs IH]; intros V [|i idx] Hs Hl; try discriminate; [reflexivity|].
  inversion Hs as [|? ? Hs1 Hs']; subst. cbn [map dlin all_in all_pos].
  destruct (in_reg r i) eqn:E; cbn [andb].
  - destruct (in_reg_inv r i Hs1 E) as [Ei Hp].
    rewrite (sumn_ext (r_count r) _ (fun a => delta (pos_reg r i) a * dlin (map emat regs) (map r_count regs) (fun r' => V (a :: r')) idx)).
    + rewrite (sumn_delta Kth) by exact Hp. apply IH; auto.
    + intros a Ha. unfold emat, delta.
      destruct (Nat.eqb_spec i (r_start r + a * r_step r)) as [Eq|Ne].
      * destruct (in_reg_pos r i a Hs1 Ha Eq) as [_ P]. rewrite P, Nat.eqb_refl. reflexivity.
      * destruct (Nat.eqb_spec (pos_reg r i) a) as [Eq2|_]; [|ring]. exfalso. apply Ne. rewrite <- Eq2. exact Ei.
  - apply (sumn_zero_ext Kth). intros a Ha. unfold emat.
    destruct (Nat.eqb_spec i (r_start r + a * r_step r)) as [Eq|_]; [|ring].
    destruct (in_reg_pos r i a Hs1 Ha Eq) as [T _]. congruence.
Qed.

(* the scalar indicator tensor *)
Lemma indicator_sound (c : K) (regs : list region) : forall sh idx, regs <> [] -> length regs = length sh ->
  length idx = length sh ->
  eval (indicator_net c regs sh) idx = if all_in regs idx then c else 0.
Proof.
  intros sh idx Hne Hl Hi. destruct regs as [|r regs]; [congruence|]. destruct sh as [|d sh]; [discriminate|].
  destruct idx as [|i idx]; [discriminate|].
  cbn [indicator_net all_in]. unfold eval. cbn [vec_core rl]. rewrite (sumn_1 Kth).
  cbn [evalv vec_core rr sl]. rewrite (sumn_1 Kth).
  assert (G: forall (regs : list region) sh idx, length regs = length sh -> length idx = length sh ->
             evalv (map (fun rd : region * nat => vec_core (K:=K) (snd rd) (fun i0 => if in_reg (fst rd) i0 then 1 else 0)) (combine regs sh))
                   idx ones O = if all_in regs idx then r1 K else 0).
  { clear - Kth. intros regs1. induction regs1 as [|r0 regs0 IH]; intros [|d0 sh0] [|i0 idx0] H1 H2; try discriminate; [reflexivity|].
    cbn [combine map evalv vec_core rr sl all_in fst snd]. rewrite (sumn_1 Kth).
    rewrite IH by (simpl in *; lia). destruct (in_reg r0 i0), (all_in regs0 idx0); cbn [andb]; ring. }
  rewrite G by (simpl in *; lia). destruct (in_reg r i), (all_in regs idx); cbn [andb]; ring.
Qed.

Lemma good_lin_each Ls d's (cs : net) : good K cs -> length Ls = length cs -> length d's = length cs ->
  good K (lin_each Ls d's cs) /\ sshape (lin_each Ls d's cs) = d's.
Proof.
  intros [Hne Hc] H1 H2. rewrite lin_each_is_all.
  destruct (lin_all_struct K Ls d's cs (hd_rl K cs) H1 H2) as (C & S & L & Hh).
  split; [split|exact S].
  - destruct (lin_all K Ls d's cs); [destruct cs; [congruence|discriminate]|discriminate].
  - destruct (lin_all K Ls d's cs) as [|a l] eqn:E; destruct cs as [|b cs]; try contradiction; try congruence.
    cbn [hd_rl] in *. rewrite Hh. rewrite <- E in C. rewrite E in C. exact (eq_trans C Hc).
Qed.

Lemma good_indicator (c : K) (regs : list region) sh : regs <> [] -> length regs = length sh ->
  good K (indicator_net c regs sh) /\ sshape (indicator_net c regs sh) = sh.
Proof.
  intros Hne Hl. destruct regs as [|r regs]; [congruence|]. destruct sh as [|d sh]; [discriminate|].
  cbn [indicator_net]. split; [split; [discriminate|]|].
  - cbn [hd_rl vec_core rl chain rr]. rewrite Nat.eqb_refl. cbn [andb].
    assert (G: forall (l : list (region * nat)), chain 1 (map (fun rd : region * nat => vec_core (K:=K) (snd rd) (fun i0 => if in_reg (fst rd) i0 then 1 else 0)) l) = true).
    { induction l as [|x l IHl]; [reflexivity|]. cbn [map chain vec_core rl rr]. rewrite Nat.eqb_refl. exact IHl. }
    apply G.
  - cbn [sshape map vec_core dm]. f_equal. simpl in Hl. injection Hl as Hl. clear Hne.
    revert sh Hl. induction regs as [|r0 regs IH]; intros [|d0 sh] Hl; try discriminate; [reflexivity|].
    cbn [combine map vec_core dm snd]. f_equal. apply IH. simpl in Hl. lia.
Qed.

Theorem setitem_net_sound (cs add res : net) (regs : list region) (A : list nat -> K) :
  good K cs -> length regs = length cs -> good K add -> sshape add = sshape cs ->
  (forall idx, in_range (sshape cs) idx = true -> eval add idx = if all_in regs idx then A idx else 0) ->
  setitem_net cs regs add = Some res ->
  good K res /\ sshape res = sshape cs /\
  forall idx, in_range (sshape cs) idx = true -> eval res idx = if all_in regs idx then A idx else eval cs idx.
Proof.
  intros Gc Hl Ga Sa Ea H. unfold setitem_net in H.
  destruct (good_lin_each (map dmat regs) (sshape cs) cs Gc) as [Gs Ss];
    [rewrite map_length; exact Hl|apply sshape_length|].
  fold (subtract_net regs cs) in Gs, Ss.
  destruct (neg_scaled_sound K Kth (subtract_net regs cs) Gs) as (Gn & Sn & En).
  set (neg := smul_net (first_scaled neg1 (length (subtract_net regs cs))) (subtract_net regs cs)) in *.
  assert (Hlen: length (subtract_net regs cs) = length cs).
  { rewrite <- (sshape_length K (subtract_net regs cs)), Ss. apply sshape_length. }
  unfold minus1 in H. fold (@neg1 K) in H. rewrite <- Hlen in H. fold neg in H.
  destruct (add_net cs neg) as [d|] eqn:E1; [|discriminate]. cbn [obind] in H.
  destruct (add_net_sound K Kth cs neg d Gc Gn E1) as (Gd & Sd & Ed).
  rewrite Sn, Ss, bshape_same in Sd. injection Sd as Sd.
  destruct (add_net_sound K Kth d add res Gd Ga H) as (Gr & Sr & Er).
  rewrite <- Sd, Sa, bshape_same in Sr. injection Sr as Sr. split; [exact Gr|]. split; [congruence|].
  intros idx Hr. assert (Hlen2: length idx = length cs) by (apply in_range_len_net; exact Hr).
  rewrite Er by (rewrite <- (sshape_length K res), <- Sr, sshape_length; exact Hlen2).
  rewrite <- Sd, Sa, !clip_in_range by assumption.
  rewrite Ed by (rewrite <- (sshape_length K d), <- Sd, sshape_length; exact Hlen2).
  rewrite Sn, Ss, !clip_in_range by assumption.
  rewrite En by (rewrite Hlen; exact Hlen2).
  rewrite Ea by assumption.
  unfold subtract_net. rewrite lin_each_is_all.
  rewrite (lin_all_eval K Kth) by (rewrite ?map_length, ?sshape_length; auto; apply (proj1 Gc)).
  rewrite (dlin_dmat regs (sshape cs) (eval cs) idx Hr) by (rewrite sshape_length; exact Hl).
  destruct (all_in regs idx); unfold neg1; ring.
Qed.

(* t[key] = scalar *)
Theorem setitem_scalar_sound (cs res : net) (regs : list region) (c : K) :
  good K cs -> length regs = length cs -> setitem_scalar cs regs c = Some res ->
  good K res /\ sshape res = sshape cs /\
  forall idx, in_range (sshape cs) idx = true -> eval res idx = if all_in regs idx then c else eval cs idx.
Proof.
  intros Gc Hl H. unfold setitem_scalar in H.
  assert (Hne: regs <> []) by (destruct regs; [destruct cs; [destruct Gc; congruence|discriminate]|discriminate]).
  destruct (good_indicator c regs (sshape cs) Hne) as [Gi Si]; [rewrite sshape_length; exact Hl|].
  apply (setitem_net_sound cs _ res regs (fun _ => c) Gc Hl Gi Si); auto.
  intros idx Hr. apply indicator_sound; auto; rewrite ?sshape_length; auto.
  apply in_range_len_net. exact Hr.
Qed.

(* t[key] = tensor of the selected shape *)
Theorem setitem_tensor_sound (cs vs res : net) (regs : list region) :
  good K cs -> length regs = length cs -> good K vs -> sshape vs = map r_count regs ->
  Forall (fun r => (0 < r_step r)%nat) regs ->
  setitem_tensor cs regs vs = Some res ->
  good K res /\ sshape res = sshape cs /\
  forall idx, in_range (sshape cs) idx = true ->
    eval res idx = if all_in regs idx then eval vs (all_pos regs idx) else eval cs idx.
Proof.
  intros Gc Hl Gv Sv Hs H. unfold setitem_tensor in H.
  assert (Hlv: length vs = length cs).
  { rewrite <- (sshape_length K vs), Sv, map_length. exact Hl. }
  destruct (good_lin_each (map emat regs) (sshape cs) vs Gv) as [Gp Sp];
    [rewrite map_length; lia|rewrite sshape_length; lia|].
  fold (place_net regs (sshape cs) vs) in Gp, Sp.
  apply (setitem_net_sound cs _ res regs (fun idx => eval vs (all_pos regs idx)) Gc Hl Gp Sp); auto.
  intros idx Hr. unfold place_net. rewrite lin_each_is_all.
  assert (Hi: length idx = length cs) by (apply in_range_len_net; exact Hr).
  rewrite (lin_all_eval K Kth) by (rewrite ?map_length, ?sshape_length; auto; try lia; apply (proj1 Gv)).
  rewrite Sv. apply dlin_emat; auto. lia.
Qed.

(* any sequence of scalar assignments on the same tensor equals the same sequence on the dense array *)
Fixpoint setitems (cs : net) (ops : list (list region * K)) : option net :=
  match ops with
  | [] => Some cs
  | (regs, c) :: ops' => obind (setitem_scalar cs regs c) (fun r => setitems r ops')
  end.
Fixpoint dense_assign (f : list nat -> K) (ops : list (list region * K)) : list nat -> K :=
  match ops with
  | [] => f
  | (regs, c) :: ops' => dense_assign (fun idx => if all_in regs idx then c else f idx) ops'
  end.
Theorem setitems_sound (ops : list (list region * K)) : forall (cs res : net) (f : list nat -> K),
  good K cs -> Forall (fun o => length (fst o) = length cs) ops ->
  (forall idx, in_range (sshape cs) idx = true -> eval cs idx = f idx) ->
  setitems cs ops = Some res ->
  sshape res = sshape cs /\
  forall idx, in_range (sshape cs) idx = true -> eval res idx = dense_assign f ops idx.
Proof.
  induction ops as [|[regs c] ops IH]; intros cs res f Gc Hl Hf H.
  - injection H as <-. split; auto.
  - cbn [setitems] in H. destruct (setitem_scalar cs regs c) as [r|] eqn:E; [|discriminate]. cbn [obind] in H.
    inversion Hl as [|? ? Hl1 Hl']; subst. cbn [fst] in Hl1.
    destruct (setitem_scalar_sound cs r regs c Gc Hl1 E) as (Gr & Sr & Er).
    assert (Hlen: length r = length cs) by (rewrite <- (sshape_length K r), Sr; apply sshape_length).
    destruct (IH r res (fun idx => if all_in regs idx then c else f idx) Gr) as [S' E']; auto.
    + rewrite Hlen. exact Hl'.
    + intros idx Hr. rewrite Sr in Hr. rewrite Er by exact Hr. destruct (all_in regs idx); auto.
    + split; [congruence|]. intros idx Hr. cbn [dense_assign]. apply E'. rewrite Sr. exact Hr.
Qed.
End SetItemP.
