(* C06 -- norms, inner products and statistics equal their dense definitions.  Statements only.
   Kernel models: Model/Dot.v (metrics.dot), Model/Tools.v (sum/mean through ttm with a vector);
   the metric formulas are the definitions regenerated from metrics.py on every run (Gen/Generated.v),
   instantiated with the model kernels over the reals. *)
From TN Require Import Proofs.DotP Proofs.ToolsP Proofs.GenP Proofs.GenInst Alg.Inst Alg.InstR Gen.Generated Harness.HBase.
From TN Require Import Proofs.HsumP Proofs.GenHsumInst.

Section C06_ring.
Variable K : Ops.
Hypothesis Kth : laws K.
Local Open Scope K_scope.
Notation net := (list (score K)).
Definition hdrl (a : net) := match a with c :: _ => rl c | [] => 1%nat end.

(* full inner product: the running interface matrix of metrics.dot, any formats *)
Theorem C06_dot : forall (a b : net), a <> [] ->
  chain (hdrl a) a = true -> chain (hdrl b) b = true -> same_shape a b = true ->
  dot_net a b = sumidx (sshape a) (fun idx => eval a idx * eval b idx).
Proof. exact (dot_net_sound K Kth). Qed.

(* contraction over the k leading modes; ia / ib index the trailing modes of either operand *)
Theorem C06_dot_partial : forall (k : nat) (a b : net) (ia ib : list nat),
  a <> [] -> b <> [] -> (0 < k)%nat -> (k <= length a)%nat -> (k <= length b)%nat ->
  chain (hdrl a) a = true -> chain (hdrl b) b = true ->
  same_shape (firstn k a) (firstn k b) = true ->
  dot_partial k a b ia ib =
  sumidx (sshape (firstn k a)) (fun idx => eval a (idx ++ ia) * eval b (idx ++ ib)).
Proof. exact (dot_partial_sound K Kth). Qed.

(* sum over one mode (keepdim): exactly that mode is reduced; iterating gives any subset *)
Theorem C06_sum : forall k (cs : net) c idx i,
  nth_error cs k = Some c -> nth_error idx k = Some i ->
  eval (sum_net k cs) idx = sumn (dm c) (fun j => eval cs (upd k idx j)).
Proof. exact (sum_sound K Kth). Qed.

(* mean over one mode with weights w (uniform 1/n or normalised marginals) *)
Theorem C06_wsum : forall k w (cs : net) c idx i,
  nth_error cs k = Some c -> nth_error idx k = Some i ->
  eval (wsum_net k w cs) idx = sumn (dm c) (fun j => w j * eval cs (upd k idx j)).
Proof. exact (wsum_sound K Kth). Qed.
(* hadamard_sum([t_1..t_M]): the sum over all entries of the entrywise product (model: kernel `*` then kernel dot) *)
Theorem C06_hadamard_sum : forall (l : list net) (v : K) sh,
  Forall (fun x => good K x /\ sshape x = sh) l -> hsum_net l = Some v ->
  v = sumidx sh (fun idx => prod_evals l idx).
Proof. exact (hsum_sound K Kth). Qed.
End C06_ring.

Section C06_metrics.
Variable sh : list nat.
Hypothesis sh_ne : sh <> [].
Notation net := (list (score RO)).
Notation ok := (okR sh).
Open Scope R_scope.
Notation S := (sumR sh).
Notation sq := GenP.sq.

Theorem C06_norm : forall (a : net), ok a ->
  gen_metrics_norm net r_dot a = sqrt (S (fun i => sq (eval a i))).
Proof. intros a Ha. apply (gen_norm_spec net r_dot (@eval RO) sh ok); auto. apply okR_dot; auto. Qed.

(* dist is the norm of the difference (also for negative inner products), symmetric, zero iff equal *)
Theorem C06_dist : forall (a b : net), ok a -> ok b ->
  gen_metrics_dist net r_dot a b = sqrt (S (fun i => sq (eval a i - eval b i))).
Proof. intros a b Ha Hb. apply (gen_dist_spec net r_dot (@eval RO) sh ok); auto. apply okR_dot; auto. Qed.

Theorem C06_dist_sym : forall (a b : net), ok a -> ok b ->
  gen_metrics_dist net r_dot a b = gen_metrics_dist net r_dot b a.
Proof. intros a b Ha Hb. apply (gen_dist_sym net r_dot (@eval RO) sh ok); auto. apply okR_dot; auto. Qed.

Theorem C06_dist_zero_iff : forall (a b : net), ok a -> ok b ->
  (gen_metrics_dist net r_dot a b = 0 <-> forall idx, in_range sh idx = true -> eval a idx = eval b idx).
Proof. intros a b Ha Hb. apply (gen_dist_zero_iff net r_dot (@eval RO) sh ok); auto. apply okR_dot; auto. Qed.

Theorem C06_dist_is_norm_of_difference : forall (a b : net), ok a -> ok b ->
  gen_metrics_dist net r_dot a b =
  gen_metrics_norm net r_dot (gen_tensor_sub_TT net r_add r_smul a b).
Proof.
  intros a b Ha Hb.
  apply (gen_dist_is_norm_of_difference net r_dot r_add r_smul (@eval RO) sh ok); auto.
  - intros; apply okR_add; auto.
  - intros; apply okR_smul; auto.
  - apply okR_dot; auto.
Qed.

Theorem C06_relative_error : forall (a b : net), ok a -> ok b ->
  gen_metrics_relative_error net r_dot a b =
  sqrt (S (fun i => sq (eval a i - eval b i))) / sqrt (S (fun i => sq (eval a i))).
Proof. intros a b Ha Hb. apply (gen_relative_error_spec net r_dot (@eval RO) sh ok); auto. apply okR_dot; auto. Qed.

(* statistics: mean and size are abstract here (their kernels are C06_sum / C06_wsum) *)
Variable r_mean r_numel : net -> R.
Hypothesis H_numel : forall a, ok a -> 0 < r_numel a.
Hypothesis H_mean : forall a, ok a -> r_mean a = S (eval a) / r_numel a.

Theorem C06_rmse : forall (a b : net), ok a -> ok b ->
  gen_metrics_rmse net r_dot r_numel a b = sqrt (S (fun i => sq (eval a i - eval b i))) / sqrt (r_numel a).
Proof. intros a b Ha Hb. apply (gen_rmse_spec net r_dot r_numel (@eval RO) sh ok); auto. apply okR_dot; auto. Qed.

Theorem C06_var : forall (a : net), ok a ->
  gen_metrics_var net r_dot r_sadd r_mean r_numel a =
  S (fun i => sq (eval a i - S (eval a) / r_numel a)) / r_numel a.
Proof.
  intros a Ha. apply (gen_var_spec net r_dot r_sadd r_mean r_numel (@eval RO) sh ok); auto.
  - intros; apply okR_sadd; auto.
  - apply okR_dot; auto.
Qed.

Theorem C06_r_squared : forall (a b : net), ok a -> ok b ->
  gen_metrics_r_squared net r_dot r_sadd r_mean a b =
  1 - S (fun i => sq (eval a i - eval b i)) / S (fun i => sq (eval a i - S (eval a) / r_numel a)).
Proof.
  intros a b Ha Hb. apply (gen_r_squared_spec net r_dot r_sadd r_mean r_numel (@eval RO) sh ok); auto.
  - intros; apply okR_sadd; auto.
  - apply okR_dot; auto.
Qed.
(* moments, as metrics.py composes them from hadamard_sum (generated), uniform weights; numel depends on the shape only *)
Hypothesis H_numel_sh : forall a b, ok a -> ok b -> r_numel a = r_numel b.
Theorem C06_raw_moment : forall (a : net) (k : nat), ok a -> (0 < k)%nat ->
  gen_metrics_raw_moment net r_numel r_hsum a k = S (fun i => eval a i ^ k) / r_numel a.
Proof.
  intros a k Ha Hk. apply (gen_raw_moment_spec net r_numel (@eval RO) sh ok r_hsum); auto.
  intros l Hne Hl. apply (okR_hsum sh); assumption.
Qed.

Theorem C06_normalized_moment : forall (a : net) (k : nat), ok a -> (0 < k)%nat ->
  gen_metrics_normalized_moment net r_dot r_sadd r_mean r_numel r_hsum a k =
  (S (fun i => (eval a i - S (eval a) / r_numel a) ^ k) / r_numel a) /
  Rpower (S (fun i => sq (eval a i - S (eval a) / r_numel a)) / r_numel a) (INR k / 2).
Proof.
  intros a k Ha Hk. apply (gen_normalized_moment_spec net r_dot r_sadd r_mean r_numel (@eval RO) sh ok); auto.
  - intros; apply okR_sadd; auto.
  - apply okR_dot; auto.
  - intros l Hne Hl. apply (okR_hsum sh); assumption.
Qed.
End C06_metrics.

(* non-vacuity *)
Definition exA6 : tensor ZO := [zM (zCP 2 2 [1;2;3;-4]%Z) None; zM (zTT 2 3 1 [1;0;2;1;-1;1]%Z) None].
Definition exB6 : tensor ZO := [zM (zTT 1 2 2 [1;-2;0;1]%Z) None; zM (zCP 3 2 [1;0;2;1;0;3]%Z) None].
Example C06_nonvacuous :
  dot_net (sem exA6) (sem exB6) =
  sumidx (K:=ZO) [2;3]%nat (fun idx => (den exA6 idx * den exB6 idx)%Z) /\
  dot_net (sem exA6) (sem exB6) <> 0%Z.
Proof. split; vm_compute; congruence. Qed.

(* non-vacuity of the premises of the statistics theorems: a concrete 2 x 2 tensor, numel = 4, mean = sum / 4 *)
Definition ex_core6 (n : nat) : score RO := mkScore (K:=RO) 1 1 n (fun s _ _ => INR s + 1)%R.
Example C06_statistics_nonvacuous :
  let sh := [2; 2]%nat in let numel := (fun _ : list (score RO) => 4%R) in
  let mean := (fun a : list (score RO) => (sumR sh (eval a) / 4)%R) in
  okR sh [ex_core6 2; ex_core6 2] /\ (forall a, okR sh a -> (0 < numel a)%R) /\
  (forall a, okR sh a -> mean a = (sumR sh (eval a) / numel a)%R) /\
  (forall a b, okR sh a -> okR sh b -> numel a = numel b).
Proof.
  cbv zeta. split; [split; [split; [discriminate|reflexivity]|reflexivity]|].
  split; [intros; lra|]. split; intros; reflexivity.
Qed.

Print Assumptions C06_dot.
Print Assumptions C06_dot_partial.
Print Assumptions C06_sum.
Print Assumptions C06_wsum.
Print Assumptions C06_norm.
Print Assumptions C06_dist.
Print Assumptions C06_dist_sym.
Print Assumptions C06_dist_zero_iff.
Print Assumptions C06_dist_is_norm_of_difference.
Print Assumptions C06_relative_error.
Print Assumptions C06_rmse.
Print Assumptions C06_var.
Print Assumptions C06_r_squared.
Print Assumptions C06_hadamard_sum.
Print Assumptions C06_raw_moment.
Print Assumptions C06_normalized_moment.
