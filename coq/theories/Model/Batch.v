(* C18: batch tensors (tn.Tensor(..., batch=True)).

   A batch TT core is a 4-index table (B, rl, s, rr), a batch CP factor a 3-index table (B, s, R),
   a batch Tucker factor a 3-index table (B, I, s).  [slice_b t b] is the b-th ordinary tensor.

   Two models are given side by side, each mirroring its own branch of tensor.py:
   * the ORDINARY concrete kernels (batch=False branches of __add__, __mul__, scalar forms): [add_c], [mul_c], ...
     on [tensor K] (tables indexed p j q; torch.cat along dims 0/1/2; einsum strings without the batch letter);
   * the BATCH kernels (batch=True branches): [add_b], [mul_b], ... on [btensor] (tables indexed bb p j q;
     torch.cat along dims 1/2/3; einsum strings with the batch letter b/g; this.shape[n + 1] for the mode size).
   Every torch.cat / einsum / [:, None] / sum(dim=..) / reshape of the code is one index map below.  All reshapes
   of the batch branches keep the leading (batch) axis, so in row-major order they act on each batch element's
   own buffer (flat index bb * M + k with k < M; see BatchP.flat_batch_split).
   No proofs in this file. *)
From TN Require Export Model.Format Model.Convert Model.Arith.

Section Batch.
Variable K : Ops.
Local Open Scope K_scope.

Definition tab2 := nat -> nat -> K.
Definition tab3 := nat -> nat -> nat -> K.
Definition tab4 := nat -> nat -> nat -> nat -> K.
Definition facT := option (nat * nat * tab2).
Definition bfacT := option (nat * nat * tab3).

(* ======================================================================================== *)
(*  ordinary tensors, concrete kernels (batch=False branches)                                *)
(* ======================================================================================== *)

(* torch.cat([f, g], dim=0/1/2), f of size n along that dim *)
Definition cat0 (n : nat) (f g : tab3) : tab3 := fun p j q => if (p <? n)%nat then f p j q else g (p - n)%nat j q.
Definition cat1 (n : nat) (f g : tab3) : tab3 := fun p j q => if (j <? n)%nat then f p j q else g p (j - n)%nat q.
Definition catl (n : nat) (f g : tab3) : tab3 := fun p j q => if (q <? n)%nat then f p j q else g p j (q - n)%nat.
Definition zeros3 : tab3 := fun _ _ _ => 0.

(* core[None] of a CP factor *)
Definition lift_cp (c : cdata K) : cdata K :=
  match c with CCP s r g => CTT 1 s r (fun _ j k => g j k) | c => c end.
Definition both_cp (c1 c2 : cdata K) : bool := is_cp c1 && is_cp c2.

(* both operands carry a Tucker factor: slice1/slice2 blocks, factors concatenated along dim=1 *)
Definition block3 (c1 c2 : cdata K) : cdata K :=
  match c1, c2 with
  | CTT a1 s1 b1 g1, CTT a2 s2 b2 g2 =>
      let slice1 := catl b1 (cat0 a1 g1 zeros3) zeros3 in
      let slice2 := catl b1 zeros3 (cat0 a1 zeros3 g2) in
      CTT (a1 + a2) (s1 + s2) (b1 + b2) (cat1 s1 slice1 slice2)
  | _, _ => c1
  end.
Definition catU (f1 f2 : facT) : facT :=
  match f1, f2 with
  | Some (d1, s1, U1), Some (_, s2, U2) =>
      Some (d1, (s1 + s2)%nat, fun i j => if (j <? s1)%nat then U1 i j else U2 i (j - s1)%nat)
  | _, _ => None
  end.
(* otherwise: column1 = cat([core1, 0], 0); column2 = cat([0, core2], 0); cat([column1, column2], 2) *)
Definition block2 (c1 c2 : cdata K) : cdata K :=
  match c1, c2 with
  | CTT a1 s1 b1 g1, CTT a2 s2 b2 g2 =>
      CTT (a1 + a2) s1 (b1 + b2) (catl b1 (cat0 a1 g1 zeros3) (cat0 a1 zeros3 g2))
  | _, _ => c1
  end.
(* cores[0].sum(dim=0, keepdim=True), cores[-1].sum(dim=2, keepdim=True), cores[n].sum(dim=0, keepdim=False) *)
Definition sum_first (c : cdata K) : cdata K :=
  match c with CTT a s b g => CTT 1 s b (fun _ j q => sumn a (fun p => g p j q)) | c => c end.
Definition sum_last (c : cdata K) : cdata K :=
  match c with CTT a s b g => CTT a s 1 (fun p j _ => sumn b (fun q => g p j q)) | c => c end.
Definition squeeze_sum (c : cdata K) : cdata K :=
  match c with CTT a s b g => CCP s b (fun j k => sumn a (fun p => g p j k)) | c => c end.

Definition prep (cp : bool) (c : cdata K) : cdata K := if cp then lift_cp c else cp_to_tt_core c.
Definition has_fac (m : mode K) : bool := match fac m with Some _ => true | None => false end.

Definition add_mode (first last : bool) (m1 m2 : mode K) : mode K :=
  let cp := both_cp (core m1) (core m2) in
  let c1 := prep cp (core m1) in
  let c2 := prep cp (core m2) in
  let r := if has_fac m1 && has_fac m2
           then mkMode (block3 c1 c2) (catU (fac m1) (fac m2))
           else mkMode (block2 (absorb (mkMode c1 (fac m1))) (absorb (mkMode c2 (fac m2)))) None in
  let r := if first && negb cp then on_core sum_first r else r in
  let r := if last && negb cp then on_core sum_last r else r in
  if cp then on_core squeeze_sum r else r.

Definition is_nil {A} (l : list A) : bool := match l with [] => true | _ => false end.

Fixpoint add_modes (first : bool) (t u : tensor K) : tensor K :=
  match t, u with
  | m1 :: t', m2 :: u' => add_mode first (is_nil t') m1 m2 :: add_modes false t' u'
  | _, _ => []
  end.

Definition nat_list_eqb (l1 l2 : list nat) : bool :=
  Nat.eqb (length l1) (length l2) && forallb (fun p => Nat.eqb (fst p) (snd p)) (combine l1 l2).

(* equal shapes (broadcasting and the 1D special case are outside C18's quantifier: None) *)
Definition add_c (t u : tensor K) : option (tensor K) :=
  if nat_list_eqb (shape t) (shape u) && (2 <=? length t)%nat then Some (add_modes true t u) else None.

(* ---- multiplication ---- *)
(* reshape(einsum("ijk,abc->iajbkc"), (i*a, j*b, k*c)) *)
Definition kron3 (c1 c2 : cdata K) : cdata K :=
  match c1, c2 with
  | CTT a1 s1 b1 g1, CTT a2 s2 b2 g2 =>
      CTT (a1 * a2) (s1 * s2) (b1 * b2)
          (fun p j q => g1 (p / a2) (j / s2) (q / b2)%nat * g2 (p mod a2) (j mod s2) (q mod b2)%nat)
  | _, _ => c1
  end.
(* reshape(einsum("ij,ik->ijk"), (I, -1)) *)
Definition kronU (f1 f2 : facT) : facT :=
  match f1, f2 with
  | Some (d1, s1, U1), Some (_, s2, U2) =>
      Some (d1, (s1 * s2)%nat, fun i j => U1 i (j / s2)%nat * U2 i (j mod s2)%nat)
  | _, _ => None
  end.
(* _core_kron: (a[:, None, :, :, None] * b[None, :, :, None, :]).reshape(a0*b0, -1, a2*b2) *)
Definition kron2 (c1 c2 : cdata K) : cdata K :=
  match c1, c2 with
  | CTT a1 s1 b1 g1, CTT a2 s2 b2 g2 =>
      CTT (a1 * a2) s1 (b1 * b2) (fun p j q => g1 (p / a2) j (q / b2)%nat * g2 (p mod a2) j (q mod b2)%nat)
  | _, _ => c1
  end.
(* cores[-1][0] *)
Definition take_first (c : cdata K) : cdata K :=
  match c with CTT a s b g => CCP s b (fun j k => g O j k) | c => c end.
(* this.cores[n].shape[1]: the spatial size of a TT core, but the RANK of a CP factor *)
Definition dim1 (c : cdata K) : nat := match c with CTT _ s _ _ => s | CCP _ r _ => r end.

(* [dec]: the test  d1 < this.shape[n]  (factor-level product when both factors are present) *)
Definition mul_mode (dec : bool) (m1 m2 : mode K) : mode K :=
  let cp := both_cp (core m1) (core m2) in
  let c1 := prep cp (core m1) in
  let c2 := prep cp (core m2) in
  let r := if has_fac m1 && has_fac m2 && dec
           then mkMode (kron3 c1 c2) (kronU (fac m1) (fac m2))
           else mkMode (kron2 (absorb (mkMode c1 (fac m1))) (absorb (mkMode c2 (fac m2)))) None in
  if cp then on_core take_first r else r.

Fixpoint mul_modes (decs : list bool) (t u : tensor K) : tensor K :=
  match decs, t, u with
  | d :: decs', m1 :: t', m2 :: u' => mul_mode d m1 m2 :: mul_modes decs' t' u'
  | _, _, _ => []
  end.
Fixpoint d1s (t u : tensor K) : list nat :=
  match t, u with
  | m1 :: t', m2 :: u' => (dim1 (core m1) * dim1 (core m2))%nat :: d1s t' u'
  | _, _ => []
  end.
Fixpoint ltbs (xs ys : list nat) : list bool :=
  match xs, ys with x :: xs', y :: ys' => (x <? y)%nat :: ltbs xs' ys' | _, _ => [] end.

Definition mul_with (decs : list bool) (t u : tensor K) : option (tensor K) :=
  if nat_list_eqb (shape t) (shape u) && Nat.eqb (length decs) (length t) then Some (mul_modes decs t u) else None.
Definition mul_c (t u : tensor K) : option (tensor K) := mul_with (ltbs (d1s t u) (shape t)) t u.

(* ---- scalar forms ---- *)
Definition scale_core (f : K) (c : cdata K) : cdata K :=
  match c with
  | CTT a s b g => CTT a s b (fun p j q => g p j q * f)
  | CCP s r g => CCP s r (fun j k => g j k * f)
  end.
(* result.cores[n] = result.cores[n] * phis[n] *)
Fixpoint smul_c (phis : list K) (t : tensor K) : tensor K :=
  match phis, t with
  | f :: phis', m :: t' => on_core (scale_core f) m :: smul_c phis' t'
  | _, _ => t
  end.
(* ones([1, shape[n], 1]); cores[0] * factor *)
Definition const_c (c : K) (sh : list nat) : tensor K :=
  match sh with
  | [] => []
  | d :: sh' => mkMode (CTT 1 d 1 (fun _ _ _ => 1 * c)) None :: map (fun d => mkMode (CTT 1 d 1 (fun _ _ _ => 1)) None) sh'
  end.
Definition sadd_c (c : K) (t : tensor K) : option (tensor K) := add_c t (const_c c (shape t)).

(* ======================================================================================== *)
(*  batch tensors                                                                            *)
(* ======================================================================================== *)

Inductive bcdata :=
| BTT (a s b : nat) (g : tab4)       (* g bb p j q *)
| BCP (s r : nat) (g : tab3).        (* g bb j k *)
Record bmode := mkBMode { bcore : bcdata; bfac : bfacT }.       (* bfac = Some (I, s, U) with U bb i j *)
Record btensor := mkBT { bsz : nat; bmodes : list bmode }.

Definition slice_core (c : bcdata) (bb : nat) : cdata K :=
  match c with BTT a s b g => CTT a s b (g bb) | BCP s r g => CCP s r (g bb) end.
Definition slice_fac (f : bfacT) (bb : nat) : facT :=
  match f with Some (di, s, U) => Some (di, s, U bb) | None => None end.
Definition slice_mode (bb : nat) (m : bmode) : mode K := mkMode (slice_core (bcore m) bb) (slice_fac (bfac m) bb).
Definition slice_modes (ms : list bmode) (bb : nat) : tensor K := map (slice_mode bb) ms.
Definition slice_b (t : btensor) (bb : nat) : tensor K := slice_modes (bmodes t) bb.

Definition bc_sz (c : bcdata) := match c with BTT _ s _ _ => s | BCP s _ _ => s end.
Definition bc_rl (c : bcdata) := match c with BTT a _ _ _ => a | BCP _ r _ => r end.
Definition bc_rr (c : bcdata) := match c with BTT _ _ b _ => b | BCP _ r _ => r end.
Definition bis_cp (c : bcdata) := match c with BCP _ _ _ => true | _ => false end.
Definition bm_size (m : bmode) : nat := match bfac m with Some (di, _, _) => di | None => bc_sz (bcore m) end.
(* the non-batch part of Tensor.shape; the full shape is bsz :: bshape_of *)
Definition bshape_of (ms : list bmode) : list nat := map bm_size ms.
(* the constructor's checks *)
Definition wf_bmode (m : bmode) : bool :=
  match bfac m with Some (_, s, _) => Nat.eqb s (bc_sz (bcore m)) | None => true end.
Fixpoint bchain (r : nat) (ms : list bmode) : bool :=
  match ms with [] => true | m :: ms' => Nat.eqb (bc_rl (bcore m)) r && bchain (bc_rr (bcore m)) ms' end.
Definition wf_btensor (t : btensor) : bool :=
  match bmodes t with
  | [] => false
  | m :: _ => forallb wf_bmode (bmodes t) && bchain (bc_rl (bcore m)) (bmodes t)
  end.

(* torch.cat([f, g], dim=1/2/3) of batch tables *)
Definition bcat1 (n : nat) (f g : tab4) : tab4 := fun bb p j q => if (p <? n)%nat then f bb p j q else g bb (p - n)%nat j q.
Definition bcat2 (n : nat) (f g : tab4) : tab4 := fun bb p j q => if (j <? n)%nat then f bb p j q else g bb p (j - n)%nat q.
Definition bcat3 (n : nat) (f g : tab4) : tab4 := fun bb p j q => if (q <? n)%nat then f bb p j q else g bb p j (q - n)%nat.
Definition zeros4 : tab4 := fun _ _ _ _ => 0.

(* core[:, None] *)
Definition blift_cp (c : bcdata) : bcdata :=
  match c with BCP s r g => BTT 1 s r (fun bb _ j k => g bb j k) | c => c end.
(* _cp_to_tt(factor), batch: zeros(B, R, R+1, s); core[..., 0, :] = factor^T; reshape(B, R+1, R, s).permute(0,1,3,2)[..., :-1, :, :]
   -- element bb's buffer is read at the same offsets as in the ordinary branch (cp_buf) *)
Definition bcp_to_tt_core (c : bcdata) : bcdata :=
  match c with
  | BCP s r g => BTT r s r (fun bb a i b => cp_buf s r (g bb) ((a * r + b) * s + i)%nat)
  | c => c
  end.
(* einsum("bijk,baj->biak") / einsum("bjk,baj->bak") *)
Definition babsorb (m : bmode) : bcdata :=
  match bfac m with
  | None => bcore m
  | Some (di, s, U) =>
      match bcore m with
      | BTT a _ b g => BTT a di b (fun bb p i q => sumn s (fun j => U bb i j * g bb p j q))
      | BCP _ r g => BCP di r (fun bb i k => sumn s (fun j => U bb i j * g bb j k))
      end
  end.
Definition bon_core (f : bcdata -> bcdata) (m : bmode) : bmode := mkBMode (f (bcore m)) (bfac m).
Definition bdecompress_mode (m : bmode) : bmode := mkBMode (babsorb m) None.
Definition decompress_b (t : btensor) : btensor := mkBT (bsz t) (map bdecompress_mode (bmodes t)).

Definition bboth_cp (c1 c2 : bcdata) : bool := bis_cp c1 && bis_cp c2.
Definition bprep (cp : bool) (c : bcdata) : bcdata := if cp then blift_cp c else bcp_to_tt_core c.
Definition bhas_fac (m : bmode) : bool := match bfac m with Some _ => true | None => false end.

Definition bblock3 (c1 c2 : bcdata) : bcdata :=
  match c1, c2 with
  | BTT a1 s1 b1 g1, BTT a2 s2 b2 g2 =>
      let slice1 := bcat3 b1 (bcat1 a1 g1 zeros4) zeros4 in
      let slice2 := bcat3 b1 zeros4 (bcat1 a1 zeros4 g2) in
      BTT (a1 + a2) (s1 + s2) (b1 + b2) (bcat2 s1 slice1 slice2)
  | _, _ => c1
  end.
(* torch.cat((this.Us[n], other.Us[n]), dim=2) *)
Definition bcatU (f1 f2 : bfacT) : bfacT :=
  match f1, f2 with
  | Some (d1, s1, U1), Some (_, s2, U2) =>
      Some (d1, (s1 + s2)%nat, fun bb i j => if (j <? s1)%nat then U1 bb i j else U2 bb i (j - s1)%nat)
  | _, _ => None
  end.
(* column1 = cat([core1, 0], dim=1); column2 = cat([0, core2], dim=1); cat([column1, column2], dim=3) *)
Definition bblock2 (c1 c2 : bcdata) : bcdata :=
  match c1, c2 with
  | BTT a1 s1 b1 g1, BTT a2 s2 b2 g2 =>
      BTT (a1 + a2) s1 (b1 + b2) (bcat3 b1 (bcat1 a1 g1 zeros4) (bcat1 a1 zeros4 g2))
  | _, _ => c1
  end.
(* sum(dim=1, keepdim=True) / sum(dim=3, keepdim=True) / sum(dim=1, keepdim=False) *)
Definition bsum_first (c : bcdata) : bcdata :=
  match c with BTT a s b g => BTT 1 s b (fun bb _ j q => sumn a (fun p => g bb p j q)) | c => c end.
Definition bsum_last (c : bcdata) : bcdata :=
  match c with BTT a s b g => BTT a s 1 (fun bb p j _ => sumn b (fun q => g bb p j q)) | c => c end.
Definition bsqueeze_sum (c : bcdata) : bcdata :=
  match c with BTT a s b g => BCP s b (fun bb j k => sumn a (fun p => g bb p j k)) | c => c end.

Definition badd_mode (first last : bool) (m1 m2 : bmode) : bmode :=
  let cp := bboth_cp (bcore m1) (bcore m2) in
  let c1 := bprep cp (bcore m1) in
  let c2 := bprep cp (bcore m2) in
  let r := if bhas_fac m1 && bhas_fac m2
           then mkBMode (bblock3 c1 c2) (bcatU (bfac m1) (bfac m2))
           else mkBMode (bblock2 (babsorb (mkBMode c1 (bfac m1))) (babsorb (mkBMode c2 (bfac m2)))) None in
  let r := if first && negb cp then bon_core bsum_first r else r in
  let r := if last && negb cp then bon_core bsum_last r else r in
  if cp then bon_core bsqueeze_sum r else r.

Fixpoint badd_modes (first : bool) (t u : list bmode) : list bmode :=
  match t, u with
  | m1 :: t', m2 :: u' => badd_mode first (is_nil t') m1 m2 :: badd_modes false t' u'
  | _, _ => []
  end.

(* the assertion  self.shape[0] == other.shape[0]  and equal remaining shapes *)
Definition add_b (t u : btensor) : option btensor :=
  if Nat.eqb (bsz t) (bsz u) && nat_list_eqb (bshape_of (bmodes t)) (bshape_of (bmodes u)) && (2 <=? length (bmodes t))%nat
  then Some (mkBT (bsz t) (badd_modes true (bmodes t) (bmodes u))) else None.

(* ---- batch multiplication ---- *)
(* reshape(einsum("gijk,gabc->giajbkc"), (g, i*a, j*b, k*c)) *)
Definition bkron3 (c1 c2 : bcdata) : bcdata :=
  match c1, c2 with
  | BTT a1 s1 b1 g1, BTT a2 s2 b2 g2 =>
      BTT (a1 * a2) (s1 * s2) (b1 * b2)
          (fun bb p j q => g1 bb (p / a2) (j / s2) (q / b2)%nat * g2 bb (p mod a2) (j mod s2) (q mod b2)%nat)
  | _, _ => c1
  end.
(* reshape(einsum("bij,bik->bijk"), (B, I, -1)) *)
Definition bkronU (f1 f2 : bfacT) : bfacT :=
  match f1, f2 with
  | Some (d1, s1, U1), Some (_, s2, U2) =>
      Some (d1, (s1 * s2)%nat, fun bb i j => U1 bb i (j / s2)%nat * U2 bb i (j mod s2)%nat)
  | _, _ => None
  end.
(* _core_kron(batch): (a[:, :, None, :, :, None] * b[:, None, :, :, None, :]).reshape(B, a1*b1, -1, a3*b3) *)
Definition bkron2 (c1 c2 : bcdata) : bcdata :=
  match c1, c2 with
  | BTT a1 s1 b1 g1, BTT a2 s2 b2 g2 =>
      BTT (a1 * a2) s1 (b1 * b2) (fun bb p j q => g1 bb (p / a2) j (q / b2)%nat * g2 bb (p mod a2) j (q mod b2)%nat)
  | _, _ => c1
  end.
(* cores[-1][:, 0] *)
Definition btake_first (c : bcdata) : bcdata :=
  match c with BTT a s b g => BCP s b (fun bb j k => g bb O j k) | c => c end.
(* this.cores[n].shape[2] *)
Definition bdim2 (c : bcdata) : nat := match c with BTT _ s _ _ => s | BCP _ r _ => r end.

Definition bmul_mode (dec : bool) (m1 m2 : bmode) : bmode :=
  let cp := bboth_cp (bcore m1) (bcore m2) in
  let c1 := bprep cp (bcore m1) in
  let c2 := bprep cp (bcore m2) in
  let r := if bhas_fac m1 && bhas_fac m2 && dec
           then mkBMode (bkron3 c1 c2) (bkronU (bfac m1) (bfac m2))
           else mkBMode (bkron2 (babsorb (mkBMode c1 (bfac m1))) (babsorb (mkBMode c2 (bfac m2)))) None in
  if cp then bon_core btake_first r else r.

Fixpoint bmul_modes (decs : list bool) (t u : list bmode) : list bmode :=
  match decs, t, u with
  | d :: decs', m1 :: t', m2 :: u' => bmul_mode d m1 m2 :: bmul_modes decs' t' u'
  | _, _, _ => []
  end.
Fixpoint bd1s (t u : list bmode) : list nat :=
  match t, u with
  | m1 :: t', m2 :: u' => (bdim2 (bcore m1) * bdim2 (bcore m2))%nat :: bd1s t' u'
  | _, _ => []
  end.
(* the batch branch tests  d1 < this.shape[n]  where this.shape = (B, I_0, ..., I_{N-1}): mode n is compared with the
   size of mode n-1 (the batch size for n = 0).  This only selects between two representations of the same core. *)
Definition bdecs (t u : btensor) : list bool := ltbs (bd1s (bmodes t) (bmodes u)) (bsz t :: bshape_of (bmodes t)).

Definition mul_b (t u : btensor) : option btensor :=
  if Nat.eqb (bsz t) (bsz u) && nat_list_eqb (bshape_of (bmodes t)) (bshape_of (bmodes u))
  then Some (mkBT (bsz t) (bmul_modes (bdecs t u) (bmodes t) (bmodes u))) else None.

(* ---- batch scalar forms ---- *)
Definition bscale_core (f : K) (c : bcdata) : bcdata :=
  match c with
  | BTT a s b g => BTT a s b (fun bb p j q => g bb p j q * f)
  | BCP s r g => BCP s r (fun bb j k => g bb j k * f)
  end.
Fixpoint bsmul_modes (phis : list K) (t : list bmode) : list bmode :=
  match phis, t with
  | f :: phis', m :: t' => bon_core (bscale_core f) m :: bsmul_modes phis' t'
  | _, _ => t
  end.
Definition smul_b (phis : list K) (t : btensor) : btensor := mkBT (bsz t) (bsmul_modes phis (bmodes t)).
(* ones([B, 1, shape[n + 1], 1]); cores[0] * factor *)
Definition const_b (c : K) (B : nat) (sh : list nat) : btensor :=
  mkBT B (match sh with
          | [] => []
          | d :: sh' => mkBMode (BTT 1 d 1 (fun _ _ _ _ => 1 * c)) None ::
                        map (fun d => mkBMode (BTT 1 d 1 (fun _ _ _ _ => 1)) None) sh'
          end).
Definition sadd_b (c : K) (t : btensor) : option btensor := add_b t (const_b c (bsz t) (bshape_of (bmodes t))).

(* ---- selection along the batch mode: t[key] with key on the batch mode only (every core and factor is indexed
   [batch_dim_idx] when it is inserted).  sel: new batch position -> old one. *)
Definition bsel_core (sel : nat -> nat) (c : bcdata) : bcdata :=
  match c with BTT a s b g => BTT a s b (fun bb => g (sel bb)) | BCP s r g => BCP s r (fun bb => g (sel bb)) end.
Definition bsel_fac (sel : nat -> nat) (f : bfacT) : bfacT :=
  match f with Some (di, s, U) => Some (di, s, fun bb => U (sel bb)) | None => None end.
Definition select_b (B' : nat) (sel : nat -> nat) (t : btensor) : btensor :=
  mkBT B' (map (fun m => mkBMode (bsel_core sel (bcore m)) (bsel_fac sel (bfac m))) (bmodes t)).
(* an integer on the batch mode: [None, ...] then core[0] for every core: the ordinary tensor of element k *)
Definition select_int_b (k : nat) (t : btensor) : tensor K := slice_b (select_b 1 (fun _ => k) t) O.

(* ---- Tensor.torch(), batch branch ---- *)
(* factor: a (B, rows, r) table *)
Record bfactor := mkBF { f_rows : nat; f_r : nat; f_tab : tab3 }.
Definition torch_step (last : bool) (f : bfactor) (c : bcdata) : bfactor :=
  match c with
  | BCP s r g =>
      if last
      then (* einsum("gai,gbi->gab")[..., None] ; reshape(B, -1, 1) *)
        mkBF (f_rows f * s) 1 (fun bb row _ => sumn (f_r f) (fun i => f_tab f bb (row / s)%nat i * g bb (row mod s)%nat i))
      else (* einsum("gai,gbi->gabi") ; reshape(B, -1, r) *)
        mkBF (f_rows f * s) (f_r f) (fun bb row i => f_tab f bb (row / s)%nat i * g bb (row mod s)%nat i)
  | BTT a s b g => (* einsum("gai,gibj->gabj") ; reshape(B, -1, b) *)
      mkBF (f_rows f * s) b (fun bb row q => sumn (f_r f) (fun i => f_tab f bb (row / s)%nat i * g bb i (row mod s)%nat q))
  end.
Fixpoint torch_walk (f : bfactor) (cs : list bmode) : bfactor :=
  match cs with
  | [] => f
  | m :: cs' => torch_walk (torch_step (is_nil cs') f (bcore m)) cs'
  end.
(* factor.sum(dim=-1) if factor.shape[-1] > 1 else factor[..., 0]; the result is reshaped to (B, I_0, .., I_{N-1}) *)
Definition torch_fin (f : bfactor) (bb row : nat) : K :=
  if (1 <? f_r f)%nat then sumn (f_r f) (fun q => f_tab f bb row q) else f_tab f bb row O.
Definition torch_b (t : btensor) : bfactor :=
  let t' := decompress_b t in
  torch_walk (mkBF 1 (match bmodes t with m :: _ => bc_rl (bcore m) | [] => 1%nat end) (fun _ _ _ => 1)) (bmodes t').
(* row-major position of an index tuple *)
Fixpoint flat_idx (sh idx : list nat) (acc : nat) : nat :=
  match sh, idx with
  | d :: sh', i :: idx' => flat_idx sh' idx' (acc * d + i)%nat
  | _, _ => acc
  end.
Definition torch_val (t : btensor) (bb : nat) (idx : list nat) : K :=
  torch_fin (torch_b t) bb (flat_idx (bshape_of (bmodes t)) idx O).
(* right rank of the last core (1 for a TT tensor built by the library; R for a CP-ended one) *)
Definition brank_last (t : btensor) : nat := last (map (fun m => bc_rr (bcore m)) (bmodes t)) O.

(* literals coming from the harness: row-major tables with the batch axis first *)
Definition get4 (d1 d2 d3 : nat) (l : list K) (bb p j q : nat) : K := nth (((bb * d1 + p) * d2 + j) * d3 + q)%nat l 0.
Definition get3b (d1 d2 : nat) (l : list K) (bb j k : nat) : K := nth ((bb * d1 + j) * d2 + k)%nat l 0.
Definition lit_btt (a s b : nat) (l : list K) : bcdata := BTT a s b (get4 a s b l).
Definition lit_bcp (s r : nat) (l : list K) : bcdata := BCP s r (get3b s r l).
Definition lit_bU (di s : nat) (l : list K) : bfacT := Some (di, s, get3b di s l).

End Batch.

Arguments cat0 {K}. Arguments cat1 {K}. Arguments catl {K}. Arguments zeros3 {K}.
Arguments lift_cp {K}. Arguments both_cp {K}. Arguments block3 {K}. Arguments catU {K}. Arguments block2 {K}.
Arguments sum_first {K}. Arguments sum_last {K}. Arguments squeeze_sum {K}. Arguments prep {K}. Arguments has_fac {K}.
Arguments add_mode {K}. Arguments add_modes {K}. Arguments add_c {K}.
Arguments kron3 {K}. Arguments kronU {K}. Arguments kron2 {K}. Arguments take_first {K}. Arguments dim1 {K}.
Arguments mul_mode {K}. Arguments mul_modes {K}. Arguments d1s {K}. Arguments mul_with {K}. Arguments mul_c {K}.
Arguments scale_core {K}. Arguments smul_c {K}. Arguments const_c {K}. Arguments sadd_c {K}.
Arguments BTT {K}. Arguments BCP {K}. Arguments mkBMode {K}. Arguments bcore {K}. Arguments bfac {K}.
Arguments mkBT {K}. Arguments bsz {K}. Arguments bmodes {K}.
Arguments slice_core {K}. Arguments slice_fac {K}. Arguments slice_mode {K}. Arguments slice_modes {K}. Arguments slice_b {K}.
Arguments bc_sz {K}. Arguments bc_rl {K}. Arguments bc_rr {K}. Arguments bis_cp {K}. Arguments bm_size {K}.
Arguments bshape_of {K}. Arguments wf_bmode {K}. Arguments bchain {K}. Arguments wf_btensor {K}.
Arguments bcat1 {K}. Arguments bcat2 {K}. Arguments bcat3 {K}. Arguments zeros4 {K}.
Arguments blift_cp {K}. Arguments bcp_to_tt_core {K}. Arguments babsorb {K}. Arguments bon_core {K}.
Arguments bdecompress_mode {K}. Arguments decompress_b {K}. Arguments bboth_cp {K}. Arguments bprep {K}. Arguments bhas_fac {K}.
Arguments bblock3 {K}. Arguments bcatU {K}. Arguments bblock2 {K}. Arguments bsum_first {K}. Arguments bsum_last {K}.
Arguments bsqueeze_sum {K}. Arguments badd_mode {K}. Arguments badd_modes {K}. Arguments add_b {K}.
Arguments bkron3 {K}. Arguments bkronU {K}. Arguments bkron2 {K}. Arguments btake_first {K}. Arguments bdim2 {K}.
Arguments bmul_mode {K}. Arguments bmul_modes {K}. Arguments bd1s {K}. Arguments bdecs {K}. Arguments mul_b {K}.
Arguments bscale_core {K}. Arguments bsmul_modes {K}. Arguments smul_b {K}. Arguments const_b {K}. Arguments sadd_b {K}.
Arguments bsel_core {K}. Arguments bsel_fac {K}. Arguments select_b {K}. Arguments select_int_b {K}.
Arguments mkBF {K}. Arguments f_rows {K}. Arguments f_r {K}. Arguments f_tab {K}.
Arguments torch_step {K}. Arguments torch_walk {K}. Arguments torch_fin {K}. Arguments torch_b {K}. Arguments torch_val {K}. Arguments brank_last {K}. Arguments flat_idx sh idx acc : simpl nomatch.
Arguments get4 {K}. Arguments get3b {K}. Arguments lit_btt {K}. Arguments lit_bcp {K}. Arguments lit_bU {K}.
