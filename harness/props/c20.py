"""C20: finite-difference calculus on compressed tensors equals the dense stencil.

Implementation side: tn.partial / gradient / divergence / curl / laplacian / partialset on compressed tensors.
Specification side (NumPy on the decompressed arrays):
  * partial along mode d: central difference (x[i+1] - x[i-1]) / step with step = (hi_d - lo_d) / (I_d + 1) * 2, ends
    either periodic (roll) or padded by linear extrapolation; order k = k repetitions; default bounds of mode d are
    [0, I_d] (that mode's own size);
  * gradient = list of first-order partials (a single one for an integer dim), divergence = sum_n d_n ts[n],
    curl = the usual three differences, laplacian = sum_n d_n^2;
  * partialset: the block of per-mode orders (o_1..o_N) of the result holds the forward-difference derivative
    Delta_1^{o_1}..Delta_N^{o_N} x / prod h_n^{o_n}, h_n = (hi_n - lo_n) / (I_n - 1) (1 by default), if sum(o) is one of
    the requested orders and the mask accepts {n : o_n > 0}; every other block is zero.
"""
from lib import *


# --------------------------------------------------------------------------- masks: JSON spec, builder, semantics

def build_mask(spec, N):
    """the implementation's mask tensor for a JSON formula"""
    op = spec[0]
    if op == "var":
        return tn.symbols(N)[spec[1]]
    if op == "not":
        return ~build_mask(spec[1], N)
    if op == "and":
        return build_mask(spec[1], N) & build_mask(spec[2], N)
    if op == "or":
        return build_mask(spec[1], N) | build_mask(spec[2], N)
    if op == "xor":
        return build_mask(spec[1], N) ^ build_mask(spec[2], N)
    if op == "only":
        return tn.only(build_mask(spec[1], N))
    if op == "any":
        return tn.any(N, spec[1])
    if op == "all":
        return tn.all(N, spec[1])
    if op == "none":
        return tn.none(N, spec[1])
    if op == "presence":
        return tn.presence(N, spec[1])
    if op == "absence":
        return tn.absence(N, spec[1])
    if op == "true":
        return tn.true(N)
    if op == "false":
        return tn.false(N)
    if op == "one":
        return tn.one(N)
    if op == "wmask":
        return tn.weight_mask(N, spec[1])
    if op == "weight":
        return tn.weight(N)
    if op == "explicit":
        return to_tn(spec[1])
    if op == "times":      # product of weights (tn.mask of one mask by another)
        return tn.mask(build_mask(spec[1], N), build_mask(spec[2], N))
    if op == "scale":
        return build_mask(spec[2], N) * float(spec[1])
    raise ValueError(op)


def mask_fn(spec, N):
    """the weight function  {0,1}^N -> R  that the formula denotes (independent of tntorch)"""
    op = spec[0]
    sub = [mask_fn(s, N) for s in spec[1:] if isinstance(s, list) and s and isinstance(s[0], str)]
    which = lambda w: list(range(N)) if w is None else [(int(k) % N) for k in np.atleast_1d(w)]
    if op == "var":
        n = spec[1]
        return lambda b: float(b[n])
    if op == "not":
        return lambda b: 1.0 - sub[0](b)
    if op == "and":
        return lambda b: sub[0](b) * sub[1](b)
    if op == "or":
        return lambda b: float(sub[0](b) + sub[1](b) - sub[0](b) * sub[1](b))
    if op == "xor":
        return lambda b: float(sub[0](b) + sub[1](b) - 2 * sub[0](b) * sub[1](b))
    if op == "only":
        f = sub[0]
        rel = set()
        for b in itertools.product((0, 1), repeat=N):
            for n in range(N):
                b2 = list(b); b2[n] = 1 - b2[n]
                if abs(f(b) - f(tuple(b2))) > 1e-12:
                    rel.add(n)
        return lambda b: f(b) if all(b[n] == 0 for n in range(N) if n not in rel) else 0.0
    if op == "any":
        w = which(spec[1])
        return lambda b: float(any(b[n] for n in w))
    if op in ("all", "presence"):
        w = which(spec[1])
        return lambda b: float(all(b[n] for n in w))
    if op in ("none", "absence"):
        w = which(spec[1])
        return lambda b: float(not any(b[n] for n in w))
    if op == "true":
        return lambda b: 1.0
    if op == "false":
        return lambda b: 0.0
    if op == "one":
        return lambda b: float(sum(b) == 1)
    if op == "wmask":
        ws = set(int(k) for k in np.atleast_1d(spec[1]))
        return lambda b: float(sum(b) in ws)
    if op == "weight":
        return lambda b: float(sum(b))
    if op == "explicit":
        d = dense_np(spec[1])
        return lambda b: float(d[tuple(b)])
    if op == "times":
        return lambda b: sub[0](b) * sub[1](b)
    if op == "scale":
        c = float(spec[1])
        return lambda b: c * sub[0](b)
    raise ValueError(op)


def mask_is_bool(spec):
    op = spec[0]
    if op in ("weight", "explicit", "scale"):
        return False
    return all(mask_is_bool(s) for s in spec[1:] if isinstance(s, list) and s and isinstance(s[0], str))


def mask_kind(spec):
    def ops(s):
        out = {s[0]}
        for x in s[1:]:
            if isinstance(x, list) and x and isinstance(x[0], str):
                out |= ops(x)
        return out
    o = ops(spec)
    if "explicit" in o:
        return "explicit"
    if o & {"weight", "wmask", "one"}:
        return "automaton" if len(o) == 1 else "automaton+formula"
    return "formula"


def explicit_mask(rng, N, kinds=None):
    """an explicit 2^N weight tensor (small integers, any sign) in any format mix.  sobol() reads a last core with an
    open bond (> 1 columns) as 'one index per column' (that is how dimension_distribution passes weight_one_hot), so
    a scalar-valued mask must have a closed last bond: a CP core in last position gets rank 1."""
    if kinds is None:
        kinds = [rng.choice(KINDS) for _ in range(N)]
    kinds = [tuple(k) for k in kinds]
    return ["explicit", rand_tensor_json(rng, [2] * N, kinds, maxr=1 if kinds[-1][0] == "cp" else 2, maxs=2)]


def mask_format(spec):
    if spec is None:
        return "-"
    if spec[0] == "explicit":
        return tsig(spec[1])
    for s in spec[1:]:
        if isinstance(s, list) and s and isinstance(s[0], str) and mask_format(s) != "TT*":
            return mask_format(s)
    return "TT*"


def est_rank(spec):
    """upper estimate of the TT rank of the mask tensor the formula builds (to keep cases cheap)"""
    op = spec[0]
    sub = [est_rank(s) for s in spec[1:] if isinstance(s, list) and s and isinstance(s[0], str)]
    if op == "wmask":
        return int(max(np.atleast_1d(spec[1]))) + 1
    if op in ("weight", "one"):
        return 2
    if op == "explicit":
        return 4
    if op == "not":
        return sub[0] + 1
    if op in ("and", "times"):
        return sub[0] * sub[1]
    if op in ("or", "xor"):
        return sub[0] + sub[1] + sub[0] * sub[1]
    if op in ("only", "scale"):
        return sub[0]
    return 1


def mentioned(spec, N):
    """variables whose mode of the mask tensor is built with two different slices"""
    op = spec[0]
    if op == "var":
        return {spec[1]}
    if op in ("any", "all", "none", "presence", "absence"):
        return set(range(N)) if spec[1] is None else set(int(k) % N for k in np.atleast_1d(spec[1]))
    if op in ("wmask", "one", "weight", "explicit"):
        return set(range(N))
    out = set()
    for s in spec[1:]:
        if isinstance(s, list) and s and isinstance(s[0], str):
            out |= mentioned(s, N)
    return out


def only_fragile(spec, N):
    """True when some only(g) is applied to a g that mentions a variable it does not depend on (the dependence
    cancels, e.g. parity(x0..x3) ^ x0).  logic.relevant_symbols decides relevance by `norm(difference) > 1e-10` on a
    norm computed in the compressed format, where an exactly cancelling difference comes out as ~1e-8, so only()
    keeps such a variable.  That is a robustness defect of logic.py (reported for C15); formulas of this class are
    not generated here."""
    if spec[0] == "only":
        g = spec[1]
        f = mask_fn(g, N)
        rel = set()
        for b in itertools.product((0, 1), repeat=N):
            for n in range(N):
                b2 = list(b); b2[n] = 1 - b2[n]
                if abs(f(b) - f(tuple(b2))) > 1e-12:
                    rel.add(n)
        if mentioned(g, N) - rel:
            return True
    return any(only_fragile(s, N) for s in spec[1:] if isinstance(s, list) and s and isinstance(s[0], str))


def rand_formula(rng, N, depth, cheap=False, maxrank=48):
    while True:
        f = rand_formula0(rng, N, depth, cheap)
        if est_rank(f) <= maxrank:      # only() of formulas with cancelling dependence included since repo 43ace47
            return f


def rand_formula0(rng, N, depth, cheap=False):
    if depth == 0 or rng.random() < 0.25:
        r = rng.random()
        sub = sorted(rng.sample(range(N), rng.randint(1, N)))
        if r < 0.5:
            return ["var", rng.randrange(N)]
        if r < 0.6:
            return ["any", sub]
        if r < 0.7:
            return ["all", sub]
        if r < 0.8:
            return ["none", sub]
        if r < 0.9 and not cheap:
            return ["wmask", rng.choice([rng.randint(0, N), sorted(rng.sample(range(N + 1), 2))])]
        return [rng.choice(["presence", "absence"]), sub]
    r = rng.random()
    if r < 0.15:
        return ["not", rand_formula0(rng, N, depth - 1, cheap)]
    if r < 0.3:
        return ["only", rand_formula0(rng, N, depth - 1, cheap)]
    return [rng.choice(["and", "or", "xor"]), rand_formula0(rng, N, depth - 1, cheap),
            rand_formula0(rng, N, depth - 1, cheap)]


# --------------------------------------------------------------------------- dense oracle

def stencil(x, d, order, lo, hi, periodic):
    I = x.shape[d]
    step = (hi - lo) / (I + 1) * 2
    for _ in range(order):
        if periodic:
            x = (np.roll(x, -1, axis=d) - np.roll(x, 1, axis=d)) / step
        else:
            first = np.take(x, [0], axis=d); second = np.take(x, [1], axis=d)
            last = np.take(x, [I - 1], axis=d); prev = np.take(x, [I - 2], axis=d)
            p = np.concatenate([first - (second - first), x, last + (last - prev)], axis=d)
            x = (np.take(p, range(2, I + 2), axis=d) - np.take(p, range(0, I), axis=d)) / step
    return x


def spec_partial(x, dim, order, bounds, periodic):
    """dim int or list; bounds None | [lo,hi] | list of pairs (one per entry of dim); periodic bool | list"""
    dims = dim if isinstance(dim, list) else [dim]
    if bounds is None:
        bl = [None] * len(dims)
    elif not isinstance(bounds[0], list):
        bl = [bounds]
    else:
        bl = bounds
    pl = periodic if isinstance(periodic, list) else [periodic] * len(dims)
    for d, b, p in zip(dims, bl, pl):
        d = d % x.ndim
        lo, hi = (0.0, float(x.shape[d])) if b is None else (float(b[0]), float(b[1]))
        x = stencil(x, d, order, lo, hi, bool(p))
    return x


def per_mode_bounds(bounds, N):
    """divergence / curl / laplacian: None | one pair for all modes | list of pairs"""
    if bounds is None:
        return [None] * N
    if not isinstance(bounds[0], list):
        return [bounds] * N
    return bounds


def spec_partialset(x, orders, wfun, bounds):
    N = x.ndim
    orders = orders if isinstance(orders, list) else [orders]
    M = max(orders)
    hs = [1.0 if bounds is None else (float(bounds[n][1]) - float(bounds[n][0])) / (x.shape[n] - 1) for n in range(N)]
    off = [[sum(x.shape[n] - k for k in range(o)) for o in range(M + 2)] for n in range(N)]
    out = np.zeros([off[n][M + 1] for n in range(N)])
    blocks = {}
    for o in itertools.product(range(M + 1), repeat=N):
        dst = tuple(slice(off[n][o[n]], off[n][o[n] + 1]) for n in range(N))
        w = (1.0 if sum(o) in orders else 0.0) * wfun(tuple(int(k > 0) for k in o))
        blocks[o] = (dst, w)
        if w == 0.0:
            continue
        y = x
        for n in range(N):
            if o[n]:
                y = np.diff(y, n=o[n], axis=n) / hs[n] ** o[n]
        out[dst] = w * y
    return out, blocks


def const_along(tj, d, rng, affine=False):
    """make the tensor constant (or affine) along mode d by editing that mode's factor (or core)"""
    m = tj["modes"][d]
    def line(base, j, delta):
        return [b + j * dl for b, dl in zip(base, delta)] if affine else list(base)
    if m["U"] is not None:
        base = m["U"][0]; delta = [rng.randint(-2, 2) for _ in base]
        m["U"] = [line(base, j, delta) for j in range(len(m["U"]))]
    elif m["kind"] == "tt":
        new = []
        for a in m["core"]:
            base = a[0]; delta = [rng.randint(-2, 2) for _ in base]
            new.append([line(base, j, delta) for j in range(len(a))])
        m["core"] = new
    else:
        base = m["core"][0]; delta = [rng.randint(-2, 2) for _ in base]
        m["core"] = [line(base, j, delta) for j in range(len(m["core"]))]
    return tj


def cp_noU(tj, d):
    m = tj["modes"][d]
    return m["kind"] == "cp" and m["U"] is None


BOUND_POOL = [[0, 1], [0, 2.5], [-1, 1], [-2, 5], [1, 4], [0.5, 7], [-3, -1], [0, 10]]


class Prop:
    ID = "C20"
    LEVEL = "proof"
    COQ_HEADER = "From TN Require Import Harness.H_C20.\nFrom Coq Require Import QArith.\nOpen Scope Q_scope.\n"
    CHECK_FN = "check"
    RULE = ("partial: enumerated format lattice ({TT,CP}x{U,no U}) of the differentiated mode x position "
            "(first/middle/last) x order 1..3 x periodic x default/explicit bounds for N=1,2 (all), N=3 (sampled in "
            "quick), seeded N=4; sizes 3..6 (different per mode, so a step taken from another mode shows), lists of "
            "modes with per-mode bounds and periodic flags, negative mode numbers; linearity on pairs of tensors; "
            "tensors constant / affine along the mode; gradient (dim 'all' | int | list, default and per-mode bounds); "
            "divergence, curl, laplacian (bounds None | one pair | list of pairs); partialset (order int | list, "
            "mask None | Boolean formula | automaton, default and explicit bounds; 'full' comparison and, for "
            "max order >= 2, an additional 'selection' comparison that is independent of the step). "
            "Non-trivial = no error and a non-zero result; distinct = distinct (op, formats, shape, arguments).")
    TRUSTED = ["dense oracle harness/props/c20.py (NumPy stencils and forward differences)",
               "lib.dense_np decompression of explicit tensors"]
    ASSUMPTIONS = ["floating-point comparison at 1e-9 relative (inputs are small integers, bounds dyadic/decimal)",
                   "only(g) is generated only for g whose irrelevant variables are syntactically absent: when the "
                   "dependence cancels (e.g. only(weight_mask(4,[1,3]) ^ x0)) logic.relevant_symbols misjudges relevance "
                   "by rounding (norm ~1e-8 against a 1e-10 threshold) - a logic.py robustness defect outside this property",
                   "sizes >= 3 along differentiated modes, and > max order for partialset (as quantified)"]
    THEOREMS = ["C20_partial", "C20_stencil", "C20_constants_annihilated", "C20_affine_to_constant", "C20_sum_of_partials", "C20_partial_shape",
                "C20_curl", "C20_laplacian", "C20_divergence", "C20_gradient_default", "C20_gradient_bounds"]

    # ------------------------------------------------------------------ generation
    def generate(self, rng, tier):
        quick = tier == "quick"
        cases = []

        def shape_of(N, lo=3, hi=6):
            # distinct sizes where possible: a step computed from the wrong mode must show
            pool = list(range(lo, hi + 1)); rng.shuffle(pool)
            return [pool[n % len(pool)] for n in range(N)]

        NOCPBARE = [("tt", False), ("tt", True), ("cp", True)]

        def tensor(N, kinds=None, shape=None, bare_cp=True, **kw):
            """bare_cp=False: no CP core without a Tucker factor (that class raises today: known finding), so that the
            multi-mode operators are also exercised on inputs the implementation can process"""
            if kinds is None and not bare_cp:
                kinds = [rng.choice(NOCPBARE) for _ in range(N)]
            return rand_tensor_json(rng, shape or shape_of(N), kinds, maxr=3 if N < 4 else 2, **kw)

        def coin():
            return rng.random() < 0.3

        def rb():
            return list(rng.choice(BOUND_POOL))

        def mk(op, ts, diffmodes, **kw):
            t = ts[0]; N = len(t["modes"])
            tags = {"op": op, "formats": "|".join(tsig(x) for x in ts), "N": N,
                    "cp_noU_diffmode": any(cp_noU(x, d % N) for x, dd in zip(ts, diffmodes) for d in dd),
                    "has_cp": any(m["kind"] == "cp" for x in ts for m in x["modes"])}
            for k in ("order", "periodic", "bounds", "dim", "dimkind", "boundskind", "negdim", "compare", "ps_order_ge2",
                      "ps_cp", "maskkind", "along", "pos", "modefmt"):
                if k in kw.get("tagx", {}):
                    tags[k] = kw["tagx"][k]
            kw.pop("tagx", None)
            c = {"op": op, "ts": ts, "tags": tags}
            c.update(kw)
            cases.append(c)

        def partial_case(t, dim, order, bounds, periodic, op="partial", **extra):
            N = len(t["modes"])
            dims = dim if isinstance(dim, list) else [dim]
            d0 = dims[0] % N
            tagx = {"order": order, "periodic": str(periodic), "dimkind": "list" if isinstance(dim, list) else "int",
                    "boundskind": "none" if bounds is None else ("pair" if not isinstance(bounds[0], list) else "list"),
                    "negdim": any(d < 0 for d in dims),
                    "pos": "first" if d0 == 0 else ("last" if d0 == N - 1 else "middle"),
                    "modefmt": tsig({"modes": [t["modes"][d0]]})}
            tagx.update(extra.pop("tagx", {}))
            ts = [t] + extra.pop("more", [])
            mk(op, ts, [dims] * len(ts), dim=dim, order=order, bounds=bounds, periodic=periodic, tagx=tagx, **extra)

        # 1. partial: lattice of the differentiated mode x position x order x periodic x bounds
        for N in (1, 2, 3):
            for kinds in itertools.product(KINDS, repeat=N):
                for d in range(N):
                    if N == 3 and quick and rng.random() > 0.35:
                        continue
                    combos = list(itertools.product((1, 2, 3), (False, True), (False, True)))
                    if N > 1:
                        combos = rng.sample(combos, 3 if quick else 6)
                    for order, per, expl in combos:
                        t = tensor(N, list(kinds))
                        b = (rb() if rng.random() < 0.7 else [rb()]) if expl else None
                        partial_case(t, d, order, b, per)
        # 2. partial: seeded, lists of modes, negative modes, N = 4
        for _ in range(500 if quick else 3000):
            N = rng.randint(1, 4)
            t = tensor(N, bare_cp=rng.random() < 0.5)
            r = rng.random()
            order = rng.randint(1, 3)
            if r < 0.45:
                k = rng.randint(1, N)
                dim = rng.sample(range(N), k)
                if rng.random() < 0.25:
                    dim = [d - N if rng.random() < 0.5 else d for d in dim]
                b = None if rng.random() < 0.4 else [rb() for _ in dim]
                per = rng.choice([False, True, [rng.random() < 0.5 for _ in dim]])
                partial_case(t, dim, order, b, per)
            else:
                d = rng.randrange(N)
                if rng.random() < 0.3:
                    d -= N
                b = None if rng.random() < 0.4 else rb()
                partial_case(t, d, order, b, rng.random() < 0.5)
        # 3. linearity
        for _ in range(150 if quick else 900):
            N = rng.randint(1, 3); sh = shape_of(N)
            bc = coin()
            a = tensor(N, shape=sh, bare_cp=bc); b2 = tensor(N, shape=sh, bare_cp=bc)
            d = rng.randrange(N)
            partial_case(a, d, rng.randint(1, 3), rng.choice([None, rb()]), rng.random() < 0.5, op="linear",
                         more=[b2], coef=[rng.choice([2, -1, 0.5, 3]), rng.choice([1, -2, 0.25])])
        # 4. constant / affine along the mode
        for _ in range(200 if quick else 1200):
            N = rng.randint(1, 3)
            t = tensor(N, bare_cp=coin()); d = rng.randrange(N)
            aff = rng.random() < 0.5
            t = const_along(t, d, rng, affine=aff)
            partial_case(t, d, rng.randint(1, 3) if not aff else rng.randint(1, 2), rng.choice([None, rb()]),
                         (rng.random() < 0.5) if not aff else False, op="affine" if aff else "constant",
                         tagx={"along": "affine" if aff else "constant"})
        # 5. gradient
        for _ in range(300 if quick else 1800):
            N = rng.randint(1, 4)
            t = tensor(N, bare_cp=coin())
            r = rng.random()
            if r < 0.4:
                dim = "all"; dims = list(range(N)); dk = "all"
            elif r < 0.6:
                dim = rng.randrange(N); dims = [dim]; dk = "int"
            else:
                dims = rng.sample(range(N), rng.randint(1, N)); dim = dims; dk = "list"
            r = rng.random()
            b = None if r < 0.4 else ([rb() for _ in dims] if r < 0.8 else rb())     # one pair stands for every mode
            mk("gradient", [t], [dims], dim=dim, bounds=b,
               tagx={"dimkind": dk, "boundskind": "none" if b is None else ("list" if isinstance(b[0], list) else "pair")})
        # 6. divergence, curl, laplacian
        def bounds_of(N):
            r = rng.random()
            if r < 0.4:
                return None, "none"
            if r < 0.6:
                return rb(), "pair"
            return [rb() for _ in range(N)], "list"
        for _ in range(150 if quick else 900):
            N = rng.randint(1, 3); sh = shape_of(N)
            bc = coin()
            ts = [tensor(N, shape=sh, bare_cp=bc) for _ in range(N)]
            b, bk = bounds_of(N)
            mk("divergence", ts, [[n] for n in range(N)], bounds=b, tagx={"boundskind": bk})
        for _ in range(150 if quick else 900):
            sh = shape_of(3)
            bc = coin()
            ts = [tensor(3, shape=sh, bare_cp=bc) for _ in range(3)]
            b, bk = bounds_of(3)
            mk("curl", ts, [[1, 2], [0, 2], [0, 1]], bounds=b, tagx={"boundskind": bk})
        for _ in range(200 if quick else 1200):
            N = rng.randint(1, 4)
            t = tensor(N, bare_cp=coin())
            b, bk = bounds_of(N)
            mk("laplacian", [t], [list(range(N))], bounds=b, tagx={"boundskind": bk})
        # 7. partialset
        def ps_mask(N):
            r = rng.random()
            if r < 0.35:
                return None
            if r < 0.85:
                return rand_formula(rng, N, rng.randint(1, 2))
            return ["wmask", rng.randint(1, N)]
        for N in (1, 2, 3):
            kindsets = list(itertools.product(KINDS, repeat=N))
            if N == 3:
                kindsets = rng.sample(kindsets, 16 if quick else 64)
            kindsets += [tuple([("tt", rng.random() < 0.5) for _ in range(N)]) for _ in range(100 if quick else 600)]
            for kinds in kindsets:
                order = rng.choice([1, 1, 2, [1, 2], [2], [0, 1], 3, [1, 3]])
                M = max(order) if isinstance(order, list) else order
                t = tensor(N, list(kinds), shape=shape_of(N, lo=max(3, M + 1), hi=max(5, M + 2)))
                b = None if rng.random() < 0.5 else [rb() for _ in range(N)]
                mask = ps_mask(N)
                tagx = {"order": str(order), "boundskind": "none" if b is None else "list", "ps_order_ge2": M >= 2,
                        "ps_cp": any(m["kind"] == "cp" for m in t["modes"]),
                        "maskkind": "nomask" if mask is None else mask_kind(mask)}
                mk("partialset", [t], [[]], order=order, bounds=b, mask=mask, compare="full",
                   tagx=dict(tagx, compare="full"))
                if M >= 2:
                    mk("partialset", [t], [[]], order=order, bounds=b, mask=mask, compare="selection",
                       tagx=dict(tagx, compare="selection"))
        return cases

    # ------------------------------------------------------------------ implementation
    @staticmethod
    def _dense(r):
        d = r.torch() if isinstance(r, tn.Tensor) else torch.as_tensor(r)
        d = d.detach().double()
        return {"shape": list(d.shape), "dense": d.reshape(-1).tolist()}

    def run(self, case):
        try:
            ts = [to_tn(t) for t in case["ts"]]
            op = case["op"]
            if op in ("partial", "constant", "affine"):
                outs = [tn.partial(ts[0], case["dim"], order=case["order"], bounds=case["bounds"],
                                   periodic=case["periodic"])]
            elif op == "linear":
                al, be = case["coef"]
                kw = dict(order=case["order"], bounds=case["bounds"], periodic=case["periodic"])
                outs = [tn.partial(al * ts[0] + be * ts[1], case["dim"], **kw),
                        al * tn.partial(ts[0], case["dim"], **kw) + be * tn.partial(ts[1], case["dim"], **kw)]
            elif op == "gradient":
                g = tn.gradient(ts[0], dim=case["dim"], bounds=case["bounds"])
                if isinstance(case["dim"], int):
                    if isinstance(g, (list, tuple)):
                        return {"ok": False, "err": "TypeError", "msg": "gradient(dim=int) returned a list"}
                    outs = [g]
                else:
                    outs = list(g)
            elif op == "divergence":
                outs = [tn.divergence(ts, bounds=case["bounds"])]
            elif op == "curl":
                outs = list(tn.curl(ts, bounds=case["bounds"]))
            elif op == "laplacian":
                outs = [tn.laplacian(ts[0], bounds=case["bounds"])]
            elif op == "partialset":
                m = None if case["mask"] is None else build_mask(case["mask"], ts[0].dim())
                outs = [tn.partialset(ts[0], order=case["order"], mask=m, bounds=case["bounds"])]
            else:
                raise ValueError(op)
            return {"ok": True, "outs": [self._dense(o) for o in outs]}
        except Exception as e:
            return {"ok": False, "err": type(e).__name__, "msg": str(e)[:200]}

    # ------------------------------------------------------------------ specification
    def expected(self, case):
        xs = [dense_np(t) for t in case["ts"]]
        op = case["op"]; N = xs[0].ndim
        if op in ("partial", "constant", "affine"):
            outs = [spec_partial(xs[0], case["dim"], case["order"], case["bounds"], case["periodic"])]
        elif op == "linear":
            al, be = case["coef"]
            y = spec_partial(al * xs[0] + be * xs[1], case["dim"], case["order"], case["bounds"], case["periodic"])
            outs = [y, y]
        elif op == "gradient":
            dims = list(range(N)) if case["dim"] == "all" else (case["dim"] if isinstance(case["dim"], list) else [case["dim"]])
            bl = [None] * len(dims) if case["bounds"] is None else per_mode_bounds(case["bounds"], len(dims))
            outs = [spec_partial(xs[0], d, 1, b, False) for d, b in zip(dims, bl)]
        elif op == "divergence":
            bl = per_mode_bounds(case["bounds"], N)
            outs = [sum(spec_partial(xs[n], n, 1, bl[n], False) for n in range(N))]
        elif op == "curl":
            bl = per_mode_bounds(case["bounds"], 3)
            D = lambda k, d: spec_partial(xs[k], d, 1, bl[d], False)
            outs = [D(2, 1) - D(1, 2), D(0, 2) - D(2, 0), D(1, 0) - D(0, 1)]
        elif op == "laplacian":
            bl = per_mode_bounds(case["bounds"], N)
            outs = [sum(spec_partial(xs[0], n, 2, bl[n], False) for n in range(N))]
        elif op == "partialset":
            w = (lambda b: 1.0) if case["mask"] is None else mask_fn(case["mask"], N)
            out, _ = spec_partialset(xs[0], case["order"], w, case["bounds"])
            outs = [out]
        else:
            raise ValueError(op)
        return {"ok": True, "outs": [{"shape": list(o.shape), "dense": np.asarray(o, dtype=np.float64).reshape(-1).tolist()}
                                     for o in outs]}

    # ------------------------------------------------------------------ comparison
    def agree(self, case, res, exp):
        if not res.get("ok"):
            return False, "implementation raised %s: %s" % (res.get("err"), res.get("msg"))
        if len(res["outs"]) != len(exp["outs"]):
            return False, "%d results, expected %d" % (len(res["outs"]), len(exp["outs"]))
        op = case["op"]
        for k, (r, e) in enumerate(zip(res["outs"], exp["outs"])):
            if r["shape"] != e["shape"]:
                return False, "result %d: shape %s, expected %s" % (k, r["shape"], e["shape"])
            if op == "partialset" and case.get("compare") == "selection":
                ok, msg = self._selection(case, r, e)
                if not ok:
                    return False, msg
                continue
            if not close(r["dense"], e["dense"], 1e-9):
                a = np.array(r["dense"]); b = np.array(e["dense"])
                i = int(np.argmax(np.abs(a - b))) if a.size and np.all(np.isfinite(a)) else 0
                return False, "result %d differs from the dense stencil (entry %d: %s vs %s)" % (
                    k, i, a[i] if a.size else None, b[i] if b.size else None)
        if op == "linear":
            if not close(res["outs"][0]["dense"], res["outs"][1]["dense"], 1e-9):
                return False, "partial(a*x + b*y) differs from a*partial(x) + b*partial(y)"
        if op == "constant":
            if not (np.max(np.abs(np.array(res["outs"][0]["dense"])), initial=0.0) <= 1e-9):
                return False, "derivative of a tensor constant along the mode is not zero"
        if op == "affine":
            a = np.array(res["outs"][0]["dense"]).reshape(res["outs"][0]["shape"])
            d = case["dim"] % a.ndim
            scale = max(1.0, float(np.max(np.abs(a), initial=0.0)))
            if case["order"] == 1 and not (np.max(np.abs(a - np.take(a, [0], axis=d)), initial=0.0) <= 1e-9 * scale):
                return False, "derivative of a tensor affine along the mode is not constant along it"
            if case["order"] == 2 and not (np.max(np.abs(a), initial=0.0) <= 1e-9 * scale):
                return False, "second derivative of a tensor affine along the mode is not zero"
        return True, ""

    def _selection(self, case, r, e):
        """step-independent reading of 'contains exactly the derivatives selected by its mask': blocks that are not
        selected are zero; a selected block is a positive multiple of the forward-difference derivative, and equal to
        it when no mode is differentiated more than once (where the step is unambiguous)"""
        x = dense_np(case["ts"][0]); N = x.ndim
        w = (lambda b: 1.0) if case["mask"] is None else mask_fn(case["mask"], N)
        out, blocks = spec_partialset(x, case["order"], w, case["bounds"])
        a = np.array(r["dense"], dtype=np.float64).reshape(r["shape"])
        if not np.all(np.isfinite(a)):
            return False, "non-finite entries"
        scale = max(1.0, float(np.max(np.abs(out), initial=0.0)))
        for o, (dst, wt) in blocks.items():
            A = a[dst]; B = out[dst]
            if wt == 0.0:
                if not (np.max(np.abs(A), initial=0.0) <= 1e-9 * scale):
                    return False, "block of orders %s is not selected but is non-zero" % (o,)
            elif max(o) <= 1:
                if not close(A, B, 1e-9):
                    return False, "block of orders %s differs from the forward difference" % (o,)
            else:
                nb = float(np.sum(B * B))
                if nb <= 1e-18:
                    if not (np.max(np.abs(A), initial=0.0) <= 1e-9 * scale):
                        return False, "block of orders %s should vanish" % (o,)
                    continue
                c = float(np.sum(A * B)) / nb
                if not (c > 0 and np.max(np.abs(A - c * B), initial=0.0) <= 1e-9 * max(1.0, abs(c)) * scale):
                    return False, "block of orders %s is not a positive multiple of the forward difference" % (o,)
        return True, ""

    def nontrivial(self, case, res):
        return bool(res.get("ok")) and any(abs(v) > 1e-12 for o in res["outs"] for v in o["dense"])

    def signature(self, case):
        t = case["tags"]
        args = {k: case.get(k) for k in ("dim", "order", "bounds", "periodic", "coef", "mask", "compare")}
        return "%s;%s;%s;%s" % (t["op"], t["formats"], tshape(case["ts"][0]), json.dumps(args)[:300])

    def coq_term(self, case, res):
        """tn.partial on one tensor: the model applies, per differentiated mode, the stencil matrix times 1/step"""
        from fractions import Fraction
        if not res.get("ok") or case["op"] not in ("partial", "constant", "affine") or not res.get("outs"):
            return None
        tj = case["ts"][0]; shape = tshape(tj); N = len(shape)
        dim = case["dim"]; dims = [dim] if isinstance(dim, int) else list(dim)
        bounds = case["bounds"]
        if bounds is None:
            bounds = [[0, shape[d]] for d in dims]
        if not hasattr(bounds[0], "__len__"):
            bounds = [bounds]
        periodic = case["periodic"]
        if not hasattr(periodic, "__len__"):
            periodic = [periodic] * len(dims)
        if any(I < 3 for I in shape):
            return None
        ds = []
        for i, d in enumerate(dims):
            lo, hi = Fraction(bounds[i][0]).limit_denominator(10 ** 6), Fraction(bounds[i][1]).limit_denominator(10 ** 6)
            step = (hi - lo) / (shape[d] + 1) * 2
            if step == 0:
                return None
            ds.append("(%d%%nat, %s, %s)" % (d % N, qlit(1 / step), "true" if periodic[i] else "false"))
        lit = lambda x: qlit(Fraction(x).limit_denominator(10 ** 9))
        qd = lambda x: "(%d#%d)" % (round(x * 2 ** 40), 2 ** 40)
        out = res["outs"][0]
        return "mkCase %s %d%%nat [%s] %s %s" % (coq_tensor(tj, lit, "Q"), case["order"], "; ".join(ds),
                                                coq_natlist(out["shape"]), coq_list(out["dense"], qd, "Q"))
