(* gradient over an explicit list of modes, as the translator regenerates it from derivatives.py:
   variant N (bounds=None: every listed mode gets its OWN default bounds) and variant B (one bounds pair per listed mode) *)
From TN Require Import Alg.InstR Gen.Generated.
From Coq Require Import List Lia.
Import ListNotations.

Section GenGradP.
Variable tensor : Type.
Variable bnd : Type.
Variable t_partial : tensor -> nat -> nat -> bnd -> tensor.
Variable b_default : tensor -> nat -> bnd.
Variable den : tensor -> list nat -> R.
Variable sh : list nat.
Open Scope R_scope.
Variable ok : tensor -> Prop.
Notation inr i := (in_range sh i = true).
Variable D : nat -> nat -> bnd -> (list nat -> R) -> list nat -> R.
Hypothesis H_partial : forall a d o b, ok a -> (d < length sh)%nat ->
  ok (t_partial a d o b) /\ forall i, inr i -> den (t_partial a d o b) i = D d o b (den a) i.

Notation g_gradN := (gen_derivatives_gradient_N tensor bnd t_partial b_default).
Notation g_gradB := (gen_derivatives_gradient_B tensor bnd t_partial).

Lemma map_combine_map {A B C} (f : A * B -> C) (g : A -> B) (l : list A) :
  map f (combine l (map g l)) = map (fun a => f (a, g a)) l.
Proof. induction l as [|a l IH]; cbn; [reflexivity|]. rewrite IH. reflexivity. Qed.

(* bounds=None: component k is the first-order partial along the k-th LISTED mode with the default bounds of that mode *)
Theorem gen_gradient_N_eq (t : tensor) (dim : list nat) :
  g_gradN t dim = map (fun d => t_partial t d 1 (b_default t d)) dim.
Proof. unfold gen_derivatives_gradient_N. rewrite map_combine_map. reflexivity. Qed.

Theorem gen_gradient_N_spec (t : tensor) (dim : list nat) : ok t -> Forall (fun d => (d < length sh)%nat) dim ->
  length (g_gradN t dim) = length dim /\
  forall k d, nth_error dim k = Some d ->
    exists c, nth_error (g_gradN t dim) k = Some c /\ ok c /\
      forall i, inr i -> den c i = D d 1 (b_default t d) (den t) i.
Proof.
  intros Ht Hd. rewrite gen_gradient_N_eq. split; [apply map_length|].
  intros k d Hk. exists (t_partial t d 1 (b_default t d)). split.
  - rewrite nth_error_map, Hk. reflexivity.
  - rewrite Forall_forall in Hd. apply H_partial; [exact Ht|]. apply Hd. eapply nth_error_In; eauto.
Qed.

(* explicit bounds: component k is the partial along the k-th listed mode with the k-th bounds pair *)
Theorem gen_gradient_B_spec (t : tensor) (dim : list nat) (bs : list bnd) : ok t -> length bs = length dim ->
  Forall (fun d => (d < length sh)%nat) dim ->
  length (g_gradB t dim bs) = length dim /\
  forall k d b, nth_error dim k = Some d -> nth_error bs k = Some b ->
    exists c, nth_error (g_gradB t dim bs) k = Some c /\ ok c /\
      forall i, inr i -> den c i = D d 1 b (den t) i.
Proof.
  intros Ht Hl Hd. unfold gen_derivatives_gradient_B. split.
  - rewrite map_length, combine_length, Hl. apply Nat.min_id.
  - intros k d b Hk Hb. exists (t_partial t d 1 b). split.
    + rewrite nth_error_map.
      assert (E: nth_error (combine dim bs) k = Some (d, b)).
      { clear - Hk Hb. revert k bs Hk Hb. induction dim as [|x l IH]; intros [|k] [|y bs] Hk Hb; cbn in *; try discriminate.
        - congruence.
        - apply IH; assumption. }
      rewrite E. reflexivity.
    + rewrite Forall_forall in Hd. apply H_partial; [exact Ht|]. apply Hd. eapply nth_error_In; eauto.
Qed.
End GenGradP.
