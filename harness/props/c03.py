"""C03: indexing a compressed tensor equals (torch-rule) indexing of the dense array; error clause;
squeeze / unsqueeze / unbind inherit the agreement.

Key encoding (JSON):  {"top": "tuple"|"bare", "entries": [entry, ...]}
  entry = {"k":"int","v":k,"as":"int"|"np"} | {"k":"slice","a":..,"b":..,"s":..} | {"k":"none"} | {"k":"ell"}
        | {"k":"idx","v":[...],"as":"list"|"np"|"torch"|"tuple"} | {"k":"float","v":1.5}
  "bare": the single entry itself is passed as the key (t[3], t[1:2], t[None], t[...], t[[0,1]], t[LongTensor]).
The oracle `spec_index` is written from the property text on the dense NumPy array (integers are basic indices that
remove their mode first, slices clip like slice.indices, None inserts a 1, one Ellipsis, ONE contiguous run of
equal-length index arrays whose dimension stays where the run stood); it never calls tntorch nor torch indexing.
"""
from lib import *


# --------------------------------------------------------------------------- key building / specification

def build_entry(e):
    k = e["k"]
    if k == "int":
        a = e.get("as")
        if a == "np0d":
            return np.array(int(e["v"]))                 # a 0-d integer array is an integer
        if a == "torch0d":
            return torch.tensor(int(e["v"]))
        return np.int64(e["v"]) if a == "np" else int(e["v"])
    if k == "mask":                                      # a mask tensor accepting exactly one binary string
        return tn.Tensor([torch.tensor([[[1.0], [0.0]]]) if b == 0 else torch.tensor([[[0.0], [1.0]]]) for b in e["v"]])
    if k == "bool":                                      # a Boolean mask (outside the grammar: reject, or select like NumPy)
        return torch.tensor(e["v"], dtype=torch.bool) if e.get("as") == "torch" else np.array(e["v"], dtype=bool)
    if k == "slice":
        return slice(e["a"], e["b"], e["s"])
    if k == "none":
        return None
    if k == "ell":
        return Ellipsis
    if k == "float":
        return float(e["v"])
    if k == "idx":
        a = e.get("as", "list")
        if a == "np":
            return np.array(e["v"], dtype=np.int64)
        if a == "torch":
            return torch.tensor(e["v"], dtype=torch.long)
        if a == "tuple":
            return tuple(int(v) for v in e["v"])
        return [int(v) for v in e["v"]]
    raise ValueError(k)


def build_key(kj):
    ents = [build_entry(e) for e in kj["entries"]]
    if kj.get("top") == "bare":
        assert len(ents) == 1
        return ents[0]
    return tuple(ents)


class SpecError(Exception):
    pass


def spec_index(x, entries):
    """dense specification of x[key]; raises SpecError(reason) for keys outside the grammar"""
    N = x.ndim
    if sum(1 for e in entries if e["k"] == "ell") > 1:
        raise SpecError("second-ellipsis")
    if any(e["k"] == "float" for e in entries):
        raise SpecError("non-integer")
    if any(e["k"] == "bool" for e in entries):
        raise SpecError("boolean-mask")
    if any(e["k"] == "mask" for e in entries):
        raise SpecError("mask-tensor")
    real = [e for e in entries if e["k"] in ("int", "slice", "idx")]
    if len(real) > N:
        raise SpecError("too-many")
    full = {"k": "slice", "a": None, "b": None, "s": None}
    ents = []
    seen_ell = False
    for e in entries:
        if e["k"] == "ell":
            ents += [full] * (N - len(real)); seen_ell = True
        else:
            ents.append(e)
    if not seen_ell:
        ents += [full] * (N - len(real))
    # validation of every entry against the size of the mode it addresses
    mode = 0; runs = 0; prev_idx = False; P = None
    for e in ents:
        k = e["k"]
        if k == "none":
            prev_idx = False
            continue
        size = x.shape[mode]
        if k == "int":
            if not (-size <= e["v"] < size):
                raise SpecError("int-out-of-range")
        elif k == "slice":
            if e["s"] is not None and e["s"] <= 0:
                raise SpecError("non-positive-step")
        elif k == "idx":
            if any(not (-size <= v < size) for v in e["v"]):
                raise SpecError("index-out-of-range")
            if P is not None and len(e["v"]) != P:
                raise SpecError("unequal-lengths")
            P = len(e["v"])
            if not prev_idx:
                runs += 1
        prev_idx = (k == "idx")
        mode += 1
    if runs > 1:
        raise SpecError("two-runs")
    # evaluation
    y = x; ax = 0; i = 0
    while i < len(ents):
        e = ents[i]; k = e["k"]
        if k == "int":
            y = np.take(y, e["v"] % y.shape[ax], axis=ax)
        elif k == "slice":
            sel = list(range(*slice(e["a"], e["b"], e["s"]).indices(y.shape[ax])))
            y = np.take(y, np.array(sel, dtype=np.int64), axis=ax); ax += 1
        elif k == "none":
            y = np.expand_dims(y, ax); ax += 1
        else:
            run = []
            while i < len(ents) and ents[i]["k"] == "idx":
                run.append(ents[i]); i += 1
            i -= 1
            m = len(run); Pn = len(run[0]["v"])
            rest = y.shape[:ax] + y.shape[ax + m:]
            out = np.zeros(y.shape[:ax] + (Pn,) + y.shape[ax + m:])
            for p in range(Pn):
                sub = y
                for r in run:          # each take removes axis ax, the next array then addresses axis ax again
                    sub = np.take(sub, r["v"][p] % sub.shape[ax], axis=ax)
                assert sub.shape == rest
                idx = (slice(None),) * ax + (p,)
                out[idx] = sub
            y = out; ax += 1
        i += 1
    nints = sum(1 for e in ents if e["k"] == "int")
    scalar = (nints == N and not any(e["k"] == "none" for e in ents))
    return y, scalar


def pattern(entries):
    L = {"int": "i", "slice": "s", "none": "n", "ell": "e", "idx": "a", "float": "f", "bool": "b", "mask": "m"}
    return "".join(L[e["k"]] for e in entries)


# --------------------------------------------------------------------------- generators of key entries

def g_int(rng, size, as_=None):
    v = rng.randint(-size, size - 1)
    r = rng.random()
    return {"k": "int", "v": v, "as": as_ or ("np" if r < 0.15 else "np0d" if r < 0.2 else "torch0d" if r < 0.27 else "int")}


def g_slice(rng, size):
    r = rng.random()
    if r < 0.15:
        return {"k": "slice", "a": None, "b": None, "s": None}
    grid = [None] + list(range(-size - 2, size + 3))
    a = rng.choice(grid); b = rng.choice(grid)
    if r < 0.55 and size > 0:      # bias towards non-empty selections
        lo = rng.randint(0, size - 1); hi = rng.randint(lo + 1, size)
        a = rng.choice([lo, lo - size, None if lo == 0 else lo])
        b = rng.choice([hi, None if hi == size else hi, hi - size if hi < size else size + rng.randint(0, 2)])
    return {"k": "slice", "a": a, "b": b, "s": rng.choice([None, 1, 1, 2, 3])}


def g_idx(rng, size, P, as_=None):
    return {"k": "idx", "v": [rng.randint(-size, size - 1) for _ in range(P)],
            "as": as_ or rng.choice(["list", "list", "np", "torch", "tuple"])}


NONE = {"k": "none"}
ELL = {"k": "ell"}
FULL = {"k": "slice", "a": None, "b": None, "s": None}


def g_shape(rng, N, hi=5):
    return [rng.choice([1, 2, 3, 3, 4, 5][:hi + 1]) for _ in range(N)]


def g_tensor(rng, shape, kinds=None, special=None):
    if special == "rank1":
        return rand_tensor_json(rng, shape, kinds, maxr=1)
    if special == "bigrank":
        return rand_tensor_json(rng, shape, kinds, maxr=max(shape) + 2, maxs=max(shape) + 2)
    if special == "zero":
        return rand_tensor_json(rng, shape, kinds, maxr=2, zero=True)
    return rand_tensor_json(rng, shape, kinds, maxr=rng.choice([1, 2, 3, 3]), maxs=rng.choice([2, 3, 6]))


class Prop:
    ID = "C03"
    LEVEL = "proof"
    COQ_HEADER = "From TN Require Import Harness.H_C03.\nOpen Scope Z_scope.\n"
    CHECK_FN = "check"
    RULE = ("(a) enumerated lattice: for N=1,2 every format assignment ({TT,CP}x{U,none} per mode) x every per-mode entry "
            "kind (int / slice / index array) x every subset of None insertion positions (N=3: the same product, sampled in "
            "quick, exhaustive in thorough); two separated array runs arising in the product are kept as must-raise cases; "
            "(b) slice grid: all (start, stop, step) with start/stop in {None,-size-2..size+2}, step in {None,1,2,3} for sizes "
            "1..5; (c) partial keys and every Ellipsis position (a leading, b trailing entries, a+b<=N) for N=1..4, with "
            "None entries; (d) bare (non-tuple) keys incl. the list-is-an-index-array rule; (e) seeded random keys, N=1..4, "
            "sizes 1..5, rank-1 / rank>size / all-zero tensors, tall and wide factors; (f) malformed stream: out-of-range "
            "int, out-of-range index entry, two runs (separated by slice/int/None), too many entries (with None/Ellipsis), "
            "second Ellipsis, unequal array lengths, zero/negative step, float entry: must raise; (g) squeeze/unsqueeze/"
            "unbind on every dim (negative too) and format; (h) a sample repeated with default dtype float32. Non-trivial = "
            "no error, non-empty, not all-zero result; distinct = distinct (format, shape, op, key).")
    TRUSTED = ["oracle spec_index in harness/props/c03.py (NumPy take/expand_dims on lib.dense_np), cross-checked once "
               "against torch dense indexing on the generated in-grammar keys (extra())",
               "exact comparison: integer inputs, selection only copies entries"]
    ASSUMPTIONS = ["index arrays are passed inside a tuple key as list / tuple / int64 ndarray / LongTensor, or as a bare list / "
                   "LongTensor; a bare 1-D ndarray key (raises IndexError in tntorch, which reserves bare ndarrays for its "
                   "P x N matrix form), 0-d tensors used as integers and bool entries are outside the grammar tested",
                   "a run of index arrays is contiguous when the arrays are adjacent entries of the key (an int, slice or "
                   "None between two arrays makes two runs, which must raise)",
                   "non-batch tensors only"]
    THEOREMS = ["C03_getitem", "C03_scalar", "C03_none", "C03_run"]

    # ------------------------------------------------------------------ generation
    def generate(self, rng, tier):
        quick = tier == "quick"
        cases = []

        def mk(tj, entries, top="tuple", stream="", dd="float64", **tags):
            tags.update(op="getitem", fmt=tsig(tj), N=len(tj["modes"]), pattern=pattern(entries), top=top, stream=stream,
                        default_dtype=dd, nentries=len(entries), has_none=any(e["k"] == "none" for e in entries))
            cases.append({"op": "getitem", "t": tj, "key": {"top": top, "entries": entries}, "default_dtype": dd,
                          "tags": tags})

        def entry(kind, size, P):
            return g_int(rng, size) if kind == "i" else (g_slice(rng, size) if kind == "s" else g_idx(rng, size, P))

        # (a) lattice
        for N in (1, 2, 3):
            combos = [(f, ks, ns) for f in itertools.product(KINDS, repeat=N)
                      for ks in itertools.product("isa", repeat=N)
                      for ns in itertools.product([0, 1], repeat=N + 1)]
            if N == 3 and quick:
                combos = rng.sample(combos, 3000)
            for f, ks, ns in combos:
                shape = g_shape(rng, N, hi=3 if N == 3 else 4)
                tj = g_tensor(rng, shape, list(f))
                P = rng.randint(1, 3)
                ents = []
                for n in range(N):
                    if ns[n]:
                        ents.append(NONE)
                    ents.append(entry(ks[n], shape[n], P))
                if ns[N]:
                    ents.append(NONE)
                mk(tj, ents, stream="lattice")
        # (b) slice grid
        for size in (1, 2, 3, 4, 5):
            grid = [None] + list(range(-size - 2, size + 3))
            allsl = [(a, b, s) for a in grid for b in grid for s in (None, 1, 2, 3)]
            if quick:
                allsl = rng.sample(allsl, 250)
            for a, b, s in allsl:
                N = rng.choice([1, 1, 2, 3]); pos = rng.randrange(N)
                shape = g_shape(rng, N, hi=3); shape[pos] = size
                tj = g_tensor(rng, shape)
                ents = [FULL if n != pos else {"k": "slice", "a": a, "b": b, "s": s} for n in range(N)]
                if pos + 1 < N and rng.random() < 0.5:
                    ents[pos + 1] = g_int(rng, shape[pos + 1])
                mk(tj, ents, stream="slicegrid", size=size)
        # (c) partial keys / Ellipsis positions
        for N in (1, 2, 3, 4):
            for a in range(N + 1):
                for b in range(N + 1 - a):
                    for ell in (True, False):
                        if not ell and b:
                            continue
                        for rep in range(8 if quick else 40):
                            shape = g_shape(rng, N)
                            tj = g_tensor(rng, shape)
                            P = rng.randint(1, 3); run_ok = True; ents = []
                            modes = list(range(a)) + [None] + list(range(N - b, N))
                            lastk = None
                            for m in modes:
                                if m is None:
                                    if ell:
                                        ents.append(ELL); lastk = "e"
                                    continue
                                if rng.random() < 0.2:
                                    ents.append(NONE); lastk = "n"
                                k = rng.choice("iissa")
                                if k == "a" and not (run_ok or lastk == "a"):
                                    k = "s"
                                if k == "a":
                                    run_ok = False
                                ents.append(entry(k, shape[m], P)); lastk = k
                            if rng.random() < 0.2:
                                ents.append(NONE)
                            mk(tj, ents, stream="ellipsis", lead=a, trail=b, ell=ell)
        # (d) bare keys
        for f in KINDS:
            for N in (1, 2, 3):
                for rep in range(3 if quick else 12):
                    shape = g_shape(rng, N)
                    kinds = [f] + [rng.choice(KINDS) for _ in range(N - 1)]
                    m1 = {"k": "bool", "v": [rng.random() < 0.5 for _ in range(shape[0])], "as": rng.choice(["torch", "np"])}
                    mN = {"k": "bool", "v": np.array([rng.random() < 0.4 for _ in range(int(np.prod(shape)))]).reshape(shape).tolist(),
                          "as": rng.choice(["torch", "np"])}
                    for e in (g_int(rng, shape[0], "int"), g_int(rng, shape[0], "np"), g_int(rng, shape[0], "np0d"),
                              g_int(rng, shape[0], "torch0d"), g_slice(rng, shape[0]), NONE, ELL,
                              g_idx(rng, shape[0], rng.randint(1, 3), "list"), g_idx(rng, shape[0], 2, "torch"),
                              g_idx(rng, shape[0], 0, "list"), m1, mN):
                        mk(g_tensor(rng, shape, kinds), [e], top="bare", stream="bare")
                    if all(s_ >= 2 for s_ in shape):
                        mk(g_tensor(rng, shape, kinds), [{"k": "mask", "v": [rng.randint(0, 1) for _ in shape]}], top="bare", stream="bare")
        # (e) seeded random, N=1..4, special tensors
        def rand_key(shape):
            N = len(shape); P = rng.randint(0, 3) if rng.random() < 0.1 else rng.randint(1, 3)
            ents = []; started = False; done = False
            for n in range(N):
                c = rng.choice(["i", "i", "i", "s", "s", "s", "s", "a", "a", "n"])
                if c == "a" and done:
                    c = "s"
                if c != "a" and started:
                    done = True
                if c == "n":
                    ents.append(NONE); c = rng.choice("is")
                if c == "a":
                    started = True
                ents.append(entry(c, shape[n], P))
            if rng.random() < 0.3:
                k = rng.randint(0, len(ents)); ents = ents[:k]
                while ents and ents[-1]["k"] == "none" and rng.random() < 0.5:
                    ents.pop()
                if rng.random() < 0.5:
                    ents.append(ELL)
            if rng.random() < 0.15:
                ents.append(NONE)
            return ents
        for special in (None, "rank1", "bigrank", "zero"):
            n = (3000 if quick else 25000) if special is None else (300 if quick else 2000)
            for _ in range(n):
                N = rng.choice([1, 2, 3, 4, 4]); shape = g_shape(rng, N)
                mk(g_tensor(rng, shape, None, special), rand_key(shape), stream="random", special=special or "")
        # all-integer keys (scalar outcome) on every format, N=1..3 (N=4 sampled)
        for N in (1, 2, 3, 4):
            fs = list(itertools.product(KINDS, repeat=N))
            if N == 4 and quick:
                fs = rng.sample(fs, 64)
            for f in fs:
                shape = g_shape(rng, N, hi=3)
                mk(g_tensor(rng, shape, list(f)), [g_int(rng, s) for s in shape], stream="scalar")
        # (f) malformed stream
        def malformed(kind, N, shape):
            P = 2
            good = lambda n: entry(rng.choice("is"), shape[n], P)
            if kind == "int-oob":
                ents = [good(n) for n in range(N)]; p = rng.randrange(N)
                ents[p] = {"k": "int", "v": rng.choice([shape[p], -shape[p] - 1, shape[p] + 3]), "as": "int"}
                return ents
            if kind == "idx-oob":
                ents = [good(n) for n in range(N)]; p = rng.randrange(N)
                v = [rng.randint(-shape[p], shape[p] - 1) for _ in range(P)]
                v[rng.randrange(P)] = rng.choice([shape[p], -shape[p] - 1])
                ents[p] = {"k": "idx", "v": v, "as": rng.choice(["list", "np", "torch"])}
                return ents
            if kind == "two-runs":       # needs N >= 2 (None separator) or N >= 3
                sep = rng.choice(["n", "s", "i"]) if N >= 3 else "n"
                if sep == "n":
                    p = rng.randrange(N - 1)
                    ents = [good(n) for n in range(N)]
                    ents[p] = g_idx(rng, shape[p], P); ents[p + 1] = g_idx(rng, shape[p + 1], P)
                    ents.insert(p + 1, NONE)
                else:
                    p = rng.randrange(N - 2)
                    ents = [good(n) for n in range(N)]
                    ents[p] = g_idx(rng, shape[p], P); ents[p + 2] = g_idx(rng, shape[p + 2], P)
                    ents[p + 1] = g_int(rng, shape[p + 1]) if sep == "i" else g_slice(rng, shape[p + 1])
                return ents
            if kind == "too-many":
                ents = [good(n) for n in range(N)] + [rng.choice([g_int(rng, 1, "int"), FULL])]
                r = rng.random()
                if r < 0.3:
                    ents.insert(rng.randint(0, len(ents)), NONE)
                elif r < 0.6:
                    ents.insert(rng.randint(0, len(ents)), ELL)
                return ents
            if kind == "ell2":
                k = rng.randint(0, N)
                ents = [good(n) for n in range(k)]
                i1 = rng.randint(0, len(ents)); ents.insert(i1, ELL)
                ents.insert(rng.randint(0, len(ents)), ELL)
                return ents
            if kind == "lengths":
                p = rng.randrange(N - 1)
                ents = [good(n) for n in range(N)]
                L1 = rng.choice([1, 2, 3]); L2 = rng.choice([l for l in (1, 2, 3, 4) if l != L1])
                ents[p] = g_idx(rng, shape[p], L1); ents[p + 1] = g_idx(rng, shape[p + 1], L2)
                return ents
            if kind == "step":
                ents = [good(n) for n in range(N)]; p = rng.randrange(N)
                ents[p] = {"k": "slice", "a": None, "b": None, "s": rng.choice([0, -1, -2])}
                return ents
            if kind == "float":
                ents = [good(n) for n in range(N)]; p = rng.randrange(N)
                ents[p] = {"k": "float", "v": rng.choice([0.0, 1.0, 0.5])}
                return ents
        for kind in ("int-oob", "idx-oob", "two-runs", "too-many", "ell2", "lengths", "step", "float"):
            for f0 in KINDS:
                for N in (1, 2, 3, 4):
                    if kind in ("two-runs", "lengths") and N < 2:
                        continue
                    for rep in range(6 if quick else 40):
                        shape = g_shape(rng, N)
                        kinds = [rng.choice(KINDS) for _ in range(N)]; kinds[rng.randrange(N)] = f0
                        tj = g_tensor(rng, shape, kinds)
                        mk(tj, malformed(kind, N, shape), stream="malformed", malformed=kind)
        # (g) squeeze / unsqueeze / unbind
        def mkt(op, tj, arg, **tags):
            tags.update(op=op, fmt=tsig(tj), N=len(tj["modes"]), stream="tools", default_dtype="float64")
            cases.append({"op": op, "t": tj, "arg": arg, "default_dtype": "float64", "tags": tags})
        for N in (1, 2, 3, 4):
            fs = list(itertools.product(KINDS, repeat=N))
            if N >= 3:
                fs = rng.sample(fs, (48 if quick else len(fs)))
            for f in fs:
                shape = g_shape(rng, N, hi=3)
                tj = g_tensor(rng, shape, list(f))
                d = rng.randrange(N)
                mkt("unbind", tj, d if rng.random() < 0.6 else d - N, dim=d)
                # unsqueeze: one or several positions in the result, negative allowed
                for k in (1, rng.choice([2, 2, 3])):
                    M = N + k
                    pos = [q - M if rng.random() < 0.35 else q for q in rng.sample(range(M), k)]
                    arg = pos[0] if (k == 1 and rng.random() < 0.5) else pos
                    mkt("unsqueeze", tj, arg, nnew=k, negdim=any(q < 0 for q in pos))
                # squeeze: make some modes singleton
                shape2 = [1 if rng.random() < 0.5 else s for s in shape]
                if all(s != 1 for s in shape2):
                    shape2[rng.randrange(N)] = 1
                tj2 = g_tensor(rng, shape2, list(f))
                ones = [n for n in range(N) if shape2[n] == 1]
                r = rng.random()
                arg = None if r < 0.4 else (rng.choice(ones) if r < 0.6 else (rng.choice(ones) - N if r < 0.7 else
                                                                           rng.sample(ones, rng.randint(1, len(ones)))))
                mkt("squeeze", tj2, arg, all_ones=all(s == 1 for s in shape2))
            # squeeze to a scalar, unbind of every dim
            tj = g_tensor(rng, [1] * N, [rng.choice(KINDS) for _ in range(N)])
            mkt("squeeze", tj, None, all_ones=True)
            for d in range(N):
                shape = g_shape(rng, N, hi=3)
                mkt("unbind", g_tensor(rng, shape), d, dim=d)
        # (h) default dtype float32 (identity cores of None entries, scalars) on float64 data
        sub = [c for c in cases if c["op"] == "getitem" and c["tags"]["stream"] in ("lattice", "random", "scalar", "ellipsis")]
        for c in rng.sample(sub, min(len(sub), 600 if quick else 5000)):
            c2 = json.loads(json.dumps(c)); c2["default_dtype"] = "float32"; c2["tags"]["default_dtype"] = "float32"
            c2["big"] = True
            cases.append(c2)
        return cases

    # ------------------------------------------------------------------ execution
    BIG = 16777217  # 2^24+1, not representable in float32

    def _tensor(self, case):
        tj = case["t"]
        if case.get("big"):
            tj = json.loads(json.dumps(tj))
            for m in tj["modes"]:     # one large entry per core: a float32 round trip of any core becomes visible
                x = m["core"]
                while isinstance(x[0], list):
                    x = x[0]
                if x[0] != 0:
                    x[0] = self.BIG
        return tj

    @staticmethod
    def _pack(r):
        if isinstance(r, tn.Tensor):
            d = r.torch()
            return {"scalar": False, "shape": list(d.shape), "tshape": [int(s) for s in r.shape],
                    "dense": d.detach().double().reshape(-1).tolist(), "dtype": str(d.dtype).replace("torch.", "")}
        if isinstance(r, torch.Tensor):
            return {"scalar": True, "shape": list(r.shape), "tshape": list(r.shape),
                    "dense": r.detach().double().reshape(-1).tolist(), "dtype": str(r.dtype).replace("torch.", "")}
        if isinstance(r, (int, float, np.floating, np.integer)):
            return {"scalar": True, "shape": [], "tshape": [], "dense": [float(r)], "dtype": "float64"}
        raise TypeError("unexpected result type %s" % type(r).__name__)

    def run(self, case):
        old = torch.get_default_dtype()
        try:
            torch.set_default_dtype(torch.float32 if case.get("default_dtype") == "float32" else torch.float64)
            t = to_tn(self._tensor(case))
            op = case["op"]
            if op == "getitem":
                out = self._pack(t[build_key(case["key"])])
                out["ok"] = True
                return out
            if op == "unbind":
                rs = tn.unbind(t, case["arg"])
                return {"ok": True, "list": [self._pack(r) for r in rs]}
            if op == "squeeze":
                arg = case["arg"]
                r = tn.squeeze(t) if arg is None else tn.squeeze(t, arg)
            elif op == "unsqueeze":
                r = tn.unsqueeze(t, case["arg"])
            out = self._pack(r); out["ok"] = True
            return out
        except Exception as e:
            return {"ok": False, "err": type(e).__name__, "msg": str(e)[:200]}
        finally:
            torch.set_default_dtype(old)

    @staticmethod
    def _spec(y, scalar):
        return {"scalar": bool(scalar), "shape": list(y.shape), "dense": np.asarray(y, dtype=np.float64).reshape(-1).tolist()}

    def expected(self, case):
        x = dense_np(self._tensor(case))
        op = case["op"]
        if op == "getitem":
            try:
                y, scalar = spec_index(x, case["key"]["entries"])
            except SpecError as e:
                ents = case["key"]["entries"]
                if str(e) == "boolean-mask" and case["key"].get("top") == "bare" and len(ents) == 1:
                    # outside the grammar: rejecting it is fine, a result must be NumPy's selection (never a wrong tensor)
                    y = x[np.array(ents[0]["v"], dtype=bool)]
                    out = self._spec(y, False); out["ok"] = True; out["either"] = True
                    return out
                if str(e) == "mask-tensor" and case["key"].get("top") == "bare" and len(ents) == 1:
                    # "selection via binary indexing" (docstring): per mode, symbol 0 = the first index, symbol 1 = all the
                    # others; a single selected index is an integer.  Outside the C03 grammar: reject, or do exactly this
                    key = tuple((0 if b == 0 else (1 if x.shape[n] == 2 else slice(1, None))) for n, b in enumerate(ents[0]["v"]))
                    y = x[key]
                    out = self._spec(y, y.ndim == 0); out["ok"] = True; out["either"] = True
                    return out
                return {"ok": False, "why": str(e)}
            out = self._spec(y, scalar); out["ok"] = True
            return out
        N = x.ndim
        if op == "unbind":
            d = case["arg"] % N
            return {"ok": True, "list": [self._spec(np.take(x, k, axis=d), N == 1) for k in range(x.shape[d])]}
        if op == "squeeze":
            arg = case["arg"]
            dims = [n for n in range(N) if x.shape[n] == 1] if arg is None else ([arg] if isinstance(arg, int) else list(arg))
            dims = sorted(set(d % N for d in dims))
            y = x.reshape([s for n, s in enumerate(x.shape) if n not in dims])
            out = self._spec(y, y.ndim == 0); out["ok"] = True
            return out
        if op == "unsqueeze":
            arg = case["arg"]
            dims = [arg] if isinstance(arg, int) else list(arg)
            M = N + len(dims)
            dims = sorted(d % M for d in dims)
            shape = []; it = iter(x.shape)
            for p in range(M):
                shape.append(1 if p in dims else next(it))
            out = self._spec(x.reshape(shape), False); out["ok"] = True
            return out
        raise ValueError(op)

    @staticmethod
    def _cmp(r, e):
        if bool(r["scalar"]) != bool(e["scalar"]):
            return False, ("a compressed tensor where a plain scalar is required" if e["scalar"]
                           else "a plain scalar/torch value where a compressed tensor is required")
        if r["shape"] != e["shape"]:
            return False, "shape %s, expected %s" % (r["shape"], e["shape"])
        if r["tshape"] != e["shape"]:
            return False, ".shape attribute %s, expected %s" % (r["tshape"], e["shape"])
        a = canon_dense(r["dense"]); b = canon_dense(e["dense"])
        if a is None or a != b:
            return False, "values differ: got %s expected %s" % (str(r["dense"])[:120], str(e["dense"])[:120])
        return True, ""

    def agree(self, case, res, exp):
        if not exp["ok"]:
            return (not res["ok"], "key outside the grammar (%s) must raise, got a result of shape %s" %
                    (exp.get("why"), res.get("shape")))
        if not res["ok"]:
            if exp.get("either"):
                return True, ""
            return False, "implementation raised %s: %s" % (res.get("err"), res.get("msg"))
        if "list" in exp:
            if len(res["list"]) != len(exp["list"]):
                return False, "unbind returned %d tensors, expected %d" % (len(res["list"]), len(exp["list"]))
            for k, (r, e) in enumerate(zip(res["list"], exp["list"])):
                ok, msg = self._cmp(r, e)
                if not ok:
                    return False, "slice %d: %s" % (k, msg)
            return True, ""
        return self._cmp(res, exp)

    def nontrivial(self, case, res):
        if not res.get("ok"):
            return False
        ds = [r["dense"] for r in res["list"]] if "list" in res else [res["dense"]]
        return any(any(abs(v) > 0 for v in d) for d in ds)

    def signature(self, case):
        return "%s;%s;%s;%s;%s" % (case["op"], case["tags"]["fmt"], tshape(case["t"]),
                                   json.dumps(case.get("key", case.get("arg"))), case.get("default_dtype"))

    def coq_term(self, case, res):
        """valid getitem keys under default float64: the key is normalised the way _process_key does (Ellipsis expanded,
        trailing modes filled, negative integers wrapped, slices as start/step/count, index arrays grouped into their run);
        None entries only insert singleton dimensions and are dropped (values in row-major order are unchanged)."""
        if case["op"] != "getitem" or not res.get("ok") or case.get("default_dtype") == "float32":
            return None
        tj = self._tensor(case); shape = tshape(tj); N = len(shape)
        ents = case["key"]["entries"]
        if any(e["k"] in ("float", "bool", "mask") for e in ents) or sum(1 for e in ents if e["k"] == "ell") > 1:
            return None
        real = [e for e in ents if e["k"] in ("int", "slice", "idx")]
        if len(real) > N:
            return None
        exp = []
        for e in ents:
            if e["k"] == "ell":
                exp += [{"k": "slice", "a": None, "b": None, "s": None}] * (N - len(real))
            elif e["k"] != "none":
                exp.append(e)
        exp += [{"k": "slice", "a": None, "b": None, "s": None}] * (N - len(exp))
        if len(exp) != N:
            return None
        out = []; rshape = []; n = 0
        while n < N:
            e = exp[n]; I = shape[n]
            if e["k"] == "int":
                v = int(e["v"])
                if not -I <= v < I:
                    return None
                out.append("ZInt %d" % (v % I)); n += 1
            elif e["k"] == "slice":
                st, sp, step = slice(e["a"], e["b"], e["s"]).indices(I)
                cnt = len(range(st, sp, step))
                out.append("ZSlice %d %d %d" % (st if cnt else 0, step, cnt)); rshape.append(cnt); n += 1
            else:
                ls = []
                while n < N and exp[n]["k"] == "idx":
                    vs = [int(x) for x in exp[n]["v"]]
                    if any(not -shape[n] <= x < shape[n] for x in vs):
                        return None
                    ls.append([x % shape[n] for x in vs]); n += 1
                P = len(ls[0])
                if any(len(l) != P for l in ls):
                    return None
                out.append("ZRun %d [%s]" % (P, "; ".join(coq_natlist(l) for l in ls))); rshape.append(P)
        dense = canon_dense(res["dense"])
        if dense is None:
            dense = [10 ** 9]
        return "mkCase %s [%s] %s %s" % (coq_tensor(tj), "; ".join(out), coq_natlist(rshape), coq_list(dense))

    # ------------------------------------------------------------------ oracle self-check
    def extra(self, tier, rng):
        """cross-check the hand-written dense specification against torch's own indexing of the dense tensor
        (t.torch()[key] in the property text) on fresh in-grammar keys; a disagreement is a harness problem."""
        problems = []
        n = 0
        gen = random.Random(rng.randint(0, 10 ** 9))
        cases = [c for c in self.generate(gen, "quick") if c["op"] == "getitem" and c.get("default_dtype") == "float64"]
        for c in cases[:: 2 if tier == "quick" else 1]:
            x = dense_np(c["t"])
            try:
                y, scalar = spec_index(x, c["key"]["entries"])
            except SpecError as e:
                continue
            try:
                z = torch.tensor(x)[build_key(c["key"])].numpy()
            except Exception as e:
                problems.append({"kind": "oracle", "what": "torch rejects an in-grammar key %s: %s" % (json.dumps(c["key"]), e)})
                break
            n += 1
            if z.shape != y.shape or not np.array_equal(z, y):
                problems.append({"kind": "oracle", "what": "spec_index disagrees with torch on %s shape %s" %
                                 (json.dumps(c["key"]), list(x.shape))})
                break
        return {"problems": problems, "violations": [], "coverage": {"oracle_crosschecked_against_torch": n}}
