(* Semantics of a tensor network: for every value i of a mode's index an rl x rr matrix
   [sl i]; the dense entry is  1^T M_1(i_1) ... M_N(i_N) v  (v = all ones for a closed
   network: this is what Tensor.torch() computes, including the summed open last bond). *)
From TN Require Export Alg.Ops.

Section Score.
Variable K : Ops.
Local Open Scope K_scope.

Record score := mkScore { rl : nat; rr : nat; dm : nat; sl : nat -> nat -> nat -> K }.

Fixpoint evalv (cs : list score) (idx : list nat) (v : nat -> K) : nat -> K :=
  match cs, idx with
  | c :: cs', i :: idx' => fun p => sumn (rr c) (fun q => sl c i p q * evalv cs' idx' v q)
  | _, _ => v
  end.

Definition ones : nat -> K := fun _ => 1.

Definition eval (cs : list score) (idx : list nat) : K :=
  match cs with [] => 1 | c :: _ => sumn (rl c) (evalv cs idx ones) end.

(* bilinear form u^T M_1 .. M_N v *)
Definition bil (u : nat -> K) (cs : list score) (idx : list nat) (v : nat -> K) : K :=
  match cs with [] => u O * v O | c :: _ => sumn (rl c) (fun p => u p * evalv cs idx v p) end.

Definition sshape (cs : list score) : list nat := map dm cs.

(* adjacent bonds match, starting from left bond r *)
Fixpoint chain (r : nat) (cs : list score) : bool :=
  match cs with [] => true | c :: cs' => Nat.eqb (rl c) r && chain (rr c) cs' end.

Definition last_rr (r : nat) (cs : list score) : nat := fold_left (fun _ c => rr c) cs r.

(* ---------- constructors of the algebraic moves ---------- *)

Definition bd (a b : score) : score :=
  {| rl := rl a + rl b; rr := rr a + rr b; dm := dm a;
     sl := fun i p q =>
       if (p <? rl a)%nat then (if (q <? rr a)%nat then sl a i p q else 0)
       else (if (q <? rr a)%nat then 0 else sl b i (p - rl a)%nat (q - rr a)%nat) |}.

Fixpoint zipbd (xs ys : list score) : list score :=
  match xs, ys with a :: xs', b :: ys' => bd a b :: zipbd xs' ys' | _, _ => [] end.

Definition cat2 (n : nat) (u v : nat -> K) : nat -> K :=
  fun i => if (i <? n)%nat then u i else v (i - n)%nat.

Definition kr (a b : score) : score :=
  {| rl := rl a * rl b; rr := rr a * rr b; dm := dm a;
     sl := fun i p q => sl a i (p / rl b) (q / rr b) * sl b i (p mod rl b) (q mod rr b) |}.

Fixpoint zipkr (xs ys : list score) : list score :=
  match xs, ys with a :: xs', b :: ys' => kr a b :: zipkr xs' ys' | _, _ => [] end.

Definition krv (rb : nat) (u v : nat -> K) : nat -> K :=
  fun p => u (p / rb)%nat * v (p mod rb)%nat.

Definition reidx (g : nat -> nat) (d' : nat) (c : score) : score :=
  {| rl := rl c; rr := rr c; dm := d'; sl := fun i => sl c (g i) |}.

Definition lin (L : nat -> nat -> K) (d' : nat) (c : score) : score :=
  {| rl := rl c; rr := rr c; dm := d';
     sl := fun i p q => sumn (dm c) (fun j => L i j * sl c j p q) |}.

Definition rmulM (c : score) (M : nat -> nat -> K) (r' : nat) : score :=
  {| rl := rl c; rr := r'; dm := dm c;
     sl := fun i p q => sumn (rr c) (fun s => sl c i p s * M s q) |}.

Definition lmulM (M : nat -> nat -> K) (c : score) (r0' : nat) : score :=
  {| rl := r0'; rr := rr c; dm := dm c;
     sl := fun i p q => sumn (rl c) (fun s => M p s * sl c i s q) |}.

Definition transp (c : score) : score :=
  {| rl := rr c; rr := rl c; dm := dm c; sl := fun i p q => sl c i q p |}.

Definition idcore (r : nat) : score :=
  {| rl := r; rr := r; dm := 1; sl := fun _ p q => delta p q |}.

Fixpoint wf2 (ra rb : nat) (xs ys : list score) : Prop :=
  match xs, ys with
  | [], [] => True
  | a :: xs', b :: ys' => rl a = ra /\ rl b = rb /\ wf2 (rr a) (rr b) xs' ys'
  | _, _ => False
  end.

Fixpoint sums (l : list K) : K := match l with [] => 0 | x :: t => x + sums t end.

End Score.

Arguments rl {K} s. Arguments rr {K} s. Arguments dm {K} s. Arguments sl {K} s i p q.
Arguments mkScore {K}.
Arguments evalv {K} cs idx v p. Arguments eval {K} cs idx. Arguments bil {K} u cs idx v.
Arguments ones {K}. Arguments sshape {K} cs. Arguments chain {K} r cs.
Arguments last_rr {K}. Arguments bd {K}. Arguments zipbd {K}. Arguments cat2 {K}.
Arguments kr {K}. Arguments zipkr {K}. Arguments krv {K}.
Arguments reidx {K}. Arguments lin {K}. Arguments rmulM {K}. Arguments lmulM {K}.
Arguments transp {K}. Arguments idcore {K}. Arguments wf2 {K}. Arguments sums {K}.
