(* C15 -- Boolean formulas have truth-table semantics.  Statements only.
   The connectives ~ & | ^ and the predicates are the definitions regenerated from tensor.py / logic.py
   on every run (Gen/Generated.v); the constructors are Model/Logic.v. *)
From TN Require Import Proofs.GenP Proofs.LogicP Proofs.LogicRelP Proofs.ArithP Alg.Inst Alg.InstR Gen.Generated.

(* symbols, constants: rank-1 networks of 1 x 2 x 1 cores *)
Theorem C15_symbol : forall (K : Ops), laws K -> forall N n x, (n < N)%nat -> length x = N ->
  eval (presence_net (K:=K) N [n]) x = if Nat.eqb (nth n x O) 0 then r0 K else r1 K.
Proof. exact symbol_value. Qed.
Theorem C15_true : forall (K : Ops), laws K -> forall N x, (0 < N)%nat -> length x = N ->
  eval (true_net (K:=K) N) x = r1 K.
Proof. exact true_value. Qed.
Theorem C15_false : forall (K : Ops), laws K -> forall N x, (0 < N)%nat -> length x = N ->
  eval (false_net (K:=K) N) x = r0 K.
Proof. exact false_value. Qed.
(* all / none / presence / absence: a product of per-position indicators *)
Theorem C15_helpers : forall (K : Ops), laws K -> forall N which (a b : K) x, (0 < N)%nat -> length x = N ->
  eval (sel_net N which a b) x = prod_at (map (sel_vec which a b) (seq 0 N)) x.
Proof. exact sel_value. Qed.

(* relevant_symbols tests, for variable n, the norm of the tensor with entries f(x_n = 1) - f(x_n = 0): it vanishes exactly
   when the truth table does not depend on x_n *)
Theorem C15_relevance_test : forall (K : Ops), laws K -> forall (n : nat) (cs : list (score K)) c idx i,
  nth_error cs n = Some c -> dm c = 2%nat -> nth_error idx n = Some i ->
  eval (bool_deriv_net K n cs) idx = (eval cs (upd n idx 1%nat) - eval cs (upd n idx O))%K.
Proof. exact bool_deriv_sound. Qed.
(* only(t) multiplies t by the indicator that every irrelevant variable is false *)
Theorem C15_only : forall (K : Ops), laws K -> forall (N : nat) (irr : list nat) (cs r : list (score K)) x,
  good K cs -> sshape cs = repeat 2%nat N -> (0 < N)%nat -> only_net K N irr cs = Some r ->
  in_range (repeat 2%nat N) x = true ->
  eval r x = (eval cs x * prod_at (map (sel_vec irr (r1 K) (r0 K)) (seq 0 N)) x)%K.
Proof. exact only_sound. Qed.

(* any formula over ~ & | ^ decompresses to its 0/1 truth table; the predicates agree with it.
   Stated for any tensor type whose kernels satisfy the C02/C06 specifications (hypotheses H_add, H_mul, ...). *)
Definition C15_formula := @formula_truth_table.
Definition C15_is_contradiction := @is_contradiction_spec.
Definition C15_is_tautology := @is_tautology_spec.
Definition C15_is_satisfiable := @is_satisfiable_spec.
Definition C15_implies := @implies_spec.
Definition C15_equiv := @equiv_spec.

Check C15_formula.
Print Assumptions C15_symbol.
Print Assumptions C15_true.
Print Assumptions C15_false.
Print Assumptions C15_helpers.
Print Assumptions C15_relevance_test.
Print Assumptions C15_only.
Print Assumptions C15_formula.
Print Assumptions C15_is_contradiction.
Print Assumptions C15_is_tautology.
Print Assumptions C15_is_satisfiable.
Print Assumptions C15_implies.
Print Assumptions C15_equiv.
