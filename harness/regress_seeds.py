#!/usr/bin/env python3
"""Re-run the quick checks against every kept seeded change on the CURRENT /repo head and the CURRENT checks.

usage: regress_seeds.py K N      (worker K of N; each worker uses its own copy of /verif and its own scratch worktree)
       regress_seeds.py report   (merge the workers' rows into /verif/seeded/RESULTS_regression.md)

A seeded patch that no longer applies to the current head (its lines were moved by a later repair) is listed as
"overtaken".  Nothing is written into /verif except the final report; /repo is never touched (worktree + TNTORCH_ROOT).
"""
import os, sys, json, subprocess, glob, time

SEEDED = "/verif/seeded"
ROWS = "/root/work/regress_rows"


def sh(cmd, **kw):
    p = subprocess.run(cmd, shell=True, capture_output=True, text=True, **kw)
    return p.returncode, p.stdout + p.stderr


def report():
    rows = []
    for fn in sorted(glob.glob(ROWS + "/*.json")):
        rows += json.load(open(fn))
    rows.sort(key=lambda r: r["id"])
    head = sh("git -C /repo rev-parse --short HEAD")[1].strip()
    with open(os.path.join(SEEDED, "RESULTS_regression.md"), "w") as f:
        f.write("Quick checks of the current /verif against every kept seeded change, patches applied to /repo %s "
                "(scratch worktree, TNTORCH_ROOT).\n\n" % head)
        f.write("| seed | applies to current head | quick check | wall s | first line |\n|---|---|---|---|---|\n")
        for r in rows:
            f.write("| %s | %s | %s | %s | %s |\n" % (r["id"], r["applies"], r["result"], r.get("wall", ""), r.get("line", "").replace("|", "/")[:140]))
        n = sum(1 for r in rows if r["applies"] == "yes")
        d = sum(1 for r in rows if r["result"] == "DETECTED")
        f.write("\n%d seeded changes, %d apply to the current head, %d of those detected.\n" % (len(rows), n, d))
    print(open(os.path.join(SEEDED, "RESULTS_regression.md")).read()[-200:])


def main():
    if sys.argv[1] == "report":
        return report()
    k, n = int(sys.argv[1]), int(sys.argv[2])
    copy = "/root/work/vreg%d" % k
    wt = "/tmp/wt/reg%d" % k
    os.makedirs(ROWS, exist_ok=True); os.makedirs("/tmp/wt", exist_ok=True)
    sh("rm -rf %s && mkdir -p %s && rsync -a --exclude build --exclude .git --exclude replays /verif/ %s/" % (copy, copy, copy))
    head = sh("git -C /repo rev-parse HEAD")[1].strip()
    sh("git -C /repo worktree remove --force %s" % wt)
    sh("git -C /repo worktree add -q --detach %s %s" % (wt, head))
    env = dict(os.environ, TNTORCH_ROOT=wt, PYTHONPATH=wt, OMP_NUM_THREADS="2", VERIF_NPROC="6")
    ids = sorted(os.path.basename(d) for d in glob.glob(SEEDED + "/C*-m*") if os.path.isdir(d))
    props = sorted(set(i[:3] for i in ids))
    mine = [i for i in ids if props.index(i[:3]) % n == k]
    rows = []
    for sid in mine:
        pid = sid[:3]
        patch = os.path.join(SEEDED, sid, "patch.diff")
        sh("git -C %s reset -q --hard %s && git -C %s clean -fdq" % (wt, head, wt))
        rc, o = sh("git -C %s apply --3way %s || git -C %s apply %s" % (wt, patch, wt, patch))
        if rc != 0:
            rows.append({"id": sid, "applies": "no (overtaken by a later repair)", "result": "n/a"})
            print(rows[-1], flush=True); continue
        sh("git -C %s reset -q" % wt)
        t0 = time.time()
        rcc, oc = sh("cd %s && timeout 1800 /venv/bin/python harness/check.py --property %s --tier quick" % (copy, pid), env=env)
        lines = [l for l in oc.splitlines() if l.startswith("VIOLATION") or l.startswith(pid + " quick")]
        det = rcc == 1 and any(l.startswith("VIOLATION") for l in lines)
        rows.append({"id": sid, "applies": "yes", "result": "DETECTED" if det else "MISSED", "wall": round(time.time() - t0),
                     "line": lines[0] if lines else oc[-200:].replace("\n", " ")})
        print(rows[-1], flush=True)
        json.dump(rows, open(os.path.join(ROWS, "w%d.json" % k), "w"))
    json.dump(rows, open(os.path.join(ROWS, "w%d.json" % k), "w"))
    sh("git -C /repo worktree remove --force %s" % wt)
    sh("rm -rf %s" % copy)


main()
