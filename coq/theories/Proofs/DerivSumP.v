(* laplacian / divergence = Python sum of partial derivatives: shapes and well-formedness of the summands *)
From TN Require Export Proofs.SumNetsP.
From TN Require Export Proofs.DerivP Proofs.ToolsP.
Section DerivSum.
Variable K : Ops.
Hypothesis Kth : laws K.
Local Open Scope K_scope.
Notation net := (list (score K)).

Lemma upd_same_list {A} (l : list A) : forall k x, nth_error l k = Some x -> upd k l x = l.
Proof. induction l as [|y l IH]; intros [|k] x H; cbn in *; try discriminate; [congruence|]. f_equal. apply IH. exact H. Qed.

Lemma partial1_good k n hinv periodic (cs : net) c : nth_error cs k = Some c -> dm c = n -> good K cs ->
  good K (partial1_net k n hinv periodic cs) /\ sshape (partial1_net k n hinv periodic cs) = sshape cs.
Proof.
  intros Hc Hd G. unfold partial1_net, ttm_net. split.
  - apply (good_at_mode K); [intros; split; reflexivity | exact G].
  - unfold at_mode. rewrite Hc. rewrite (sshape_upd K). cbn [lin dm]. rewrite <- Hd.
    apply upd_same_list. unfold sshape. rewrite nth_error_map, Hc. reflexivity.
Qed.

Lemma partial1_nth k n hinv periodic (cs : net) c : nth_error cs k = Some c -> dm c = n ->
  exists c', nth_error (partial1_net k n hinv periodic cs) k = Some c' /\ dm c' = n.
Proof.
  intros Hc Hd. unfold partial1_net, ttm_net, at_mode. rewrite Hc. eexists. split; [apply (nth_error_upd cs k _ c Hc)|]. cbn [lin dm]. reflexivity.
Qed.

Theorem partial_good (order : nat) : forall k n hinv periodic (cs : net) c, nth_error cs k = Some c -> dm c = n -> good K cs ->
  good K (partial_net order k n hinv periodic cs) /\ sshape (partial_net order k n hinv periodic cs) = sshape cs /\
  exists c', nth_error (partial_net order k n hinv periodic cs) k = Some c' /\ dm c' = n.
Proof.
  induction order as [|o IH]; intros k n hinv periodic cs c Hc Hd G; cbn [partial_net].
  - split; [exact G|split; [reflexivity|]]. exists c. auto.
  - destruct (IH k n hinv periodic cs c Hc Hd G) as (G1 & S1 & c1 & H1 & D1).
    destruct (partial1_good k n hinv periodic _ c1 H1 D1 G1) as [G2 S2].
    split; [exact G2|split; [congruence|]]. exact (partial1_nth k n hinv periodic _ c1 H1 D1).
Qed.
End DerivSum.
