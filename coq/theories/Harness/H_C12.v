From TN Require Export Harness.HBase Sem.Fast Model.Tools Model.Convert Model.Create.

Inductive op12 :=
| OFlip (t : tensor ZO) (dims : list nat)
| OCumsum (t : tensor ZO) (dims : list nat)
| ORepeat (t : tensor ZO) (reps : list nat)          (* one count per existing mode *)
| OPad0 (t : tensor ZO) (ds : list (nat * nat))      (* (mode, new size) *)
| OPadC (t : tensor ZO) (ds : list (nat * nat)) (c : Z)   (* pad(t) + c * (1 - pad(ones)) *)
| OTtm (t : tensor ZO) (fs : list (nat * nat * list Z))   (* (mode, rows, row-major matrix rows x size) *)
| OCat (k : nat) (ts : list (tensor ZO))
| OMask (t m : tensor ZO)
| OTranspose (t : tensor ZO)
| OUnbind (t : tensor ZO) (k i : nat)
| OFull (c : Z) (sh : list nat)
| OEye (n m : nat).

Record case := mkCase { c_op : op12; c_shape : list nat; c_dense : list Z }.

Definition netZ := list (score ZO).
Definition dm_at (k : nat) (cs : netZ) : nat := match nth_error cs k with Some c => dm c | None => O end.

Fixpoint cat_all (k : nat) (acc : option netZ) (ts : list netZ) : option netZ :=
  match ts with
  | [] => acc
  | t :: ts' => match acc with
                | None => None
                | Some a => cat_all k (cat2_net k a t) ts'
                end
  end.

Definition run (o : op12) : option netZ :=
  match o with
  | OFlip t dims => Some (fold_left (fun cs d => flip_net d cs) dims (sem t))
  | OCumsum t dims => Some (fold_left (fun cs d => cumsum_net d cs) dims (sem t))
  | ORepeat t reps => Some (snd (fold_left (fun (st : nat * netZ) r => (S (fst st), repeat_net (fst st) r (snd st))) reps (O, sem t)))
  | OPad0 t ds => Some (fold_left (fun cs (p : nat * nat) => embed_net (fst p) 0 (snd p) cs) ds (sem t))
  | OPadC t ds c =>
      let pad0 := fun cs => fold_left (fun cs (p : nat * nat) => embed_net (fst p) 0 (snd p) cs) ds cs in
      let n := length t in
      let box := pad0 (full_net (K:=ZO) 1%Z (shape t)) in
      match sadd_net (K:=ZO) 1%Z (smul_net (first_scaled (K:=ZO) (-1)%Z n) box) with
      | Some w => add_net (pad0 (sem t)) (smul_net (first_scaled (K:=ZO) c n) w)
      | None => None
      end
  | OTtm t fs => Some (fold_left (fun cs (f : nat * nat * list Z) =>
                   let '(k, rows, m) := f in ttm_net k rows (get2 (K:=ZO) (dm_at k cs) m) cs) fs (sem t))
  | OCat k ts => match ts with [] => None | t :: ts' => cat_all k (Some (sem t)) (map (@sem ZO) ts') end
  | OMask t m => mul_net (sem t) (sem m)
  | OTranspose t => Some (sem (transpose t))
  | OUnbind t k i => Some (select_net k 1 (fun _ => i) (sem t))
  | OFull c sh => Some (full_net (K:=ZO) c sh)
  | OEye n m => Some (eye_net (K:=ZO) n m)
  end.

(* values are compared in row-major order; for unbind the kept singleton mode does not change them *)
Definition check (c : case) : bool :=
  match run (c_op c) with
  | Some cs =>
      (match c_op c with OUnbind _ _ _ => true | _ => shape_eqb (sshape cs) (c_shape c) end) &&
      list_cmp cmpZ (dense_of (eval_l cs) (sshape cs)) (c_dense c)
  | None => false
  end.
