(* End-to-end error bound of the round_tt sweep over the reals: gauge + right-orthonormal retained cores + every step
   discarding at most delta^2 = (eps / max(1, sqrt n) * nrm)^2  ==>  |T0 - T_final|^2 <= (eps nrm)^2. *)
From TN Require Import Proofs.SweepP Proofs.BudgetR Alg.InstR.
From Coq Require Import Reals Lra List.
Local Open Scope R_scope.

Lemma sumK_fold (l : list R) : sumK RO l = fold_right Rplus 0 l.
Proof. induction l as [|x l IH]; cbn; [reflexivity|]. rewrite <- IH. reflexivity. Qed.

Theorem round_tt_sweep_bound (rp : list (score RO)) (c : score RO) (suf : list (score RO)) (rs : list (score RO))
  (eps nrm : R) :
  lgauge RO rp (rl c) -> rchain RO (rr c) suf -> steps_ok RO rp c rs ->
  Forall (fun e => e <= (tt_delta eps nrm (length (step_errs RO rp c rs)))²) (step_errs RO rp c rs) ->
  let T0 := rev rp ++ c :: suf in
  sumidx (K:=RO) (sshape T0) (fun idx => ((eval T0 idx - eval (sweep RO rp c suf rs) idx) * (eval T0 idx - eval (sweep RO rp c suf rs) idx))%K)
  <= (eps * nrm)².
Proof.
  intros Hg Hc Hs Hb T0. unfold T0. rewrite (sweep_error RO RO_laws rp c suf rs Hg Hc Hs).
  rewrite sumK_fold. apply steps_within_budget. exact Hb.
Qed.

(* non-vacuity: a 2 x 2 instance over Z in which the step really discards something (error 3^2 = 9) *)
From TN Require Import Alg.Inst.
Module Example.
Definition vcore (a b : Z) : score ZO := mkScore (K:=ZO) 1 1 2 (fun i _ _ => match i with O => a | _ => b end).
Definition prev := vcore 1 0.   Definition c := vcore 3 5.   Definition r := vcore 0 1.
Example gauge_ok : lgauge ZO [prev] (rl c).
Proof. cbn. repeat split; auto. intros s t Hs Ht. cbn in Hs, Ht. assert (s = O) by lia. assert (t = O) by lia. subst. reflexivity. Qed.
Example suffix_ok : rchain ZO (rr c) [].
Proof. reflexivity. Qed.
Example steps_ok_ex : steps_ok ZO [prev] c [r].
Proof. cbn. repeat split; auto. intros s t Hs Ht. cbn in Hs, Ht. assert (s = O) by lia. assert (t = O) by lia. subst. reflexivity. Qed.
Example error_is_nine : sumK ZO (step_errs ZO [prev] c [r]) = 9%Z.
Proof. reflexivity. Qed.
Example both_sides :
  sumidx (K:=ZO) [2%nat; 2%nat] (fun idx => ((eval ([prev] ++ [c]) idx - eval (sweep ZO [prev] c [] [r]) idx) *
                                            (eval ([prev] ++ [c]) idx - eval (sweep ZO [prev] c [] [r]) idx))%K) = 9%Z.
Proof. reflexivity. Qed.
End Example.
