(* TT-matrices and CP-matrices (tntorch/matrix.py) at the level of multi-indices: a TT-matrix core is a 4-way array
   (r_l, i, o, r_r); TTMatrix.torch() flattens (i, o) row-major into one mode, decompresses the TT tensor and un-interleaves
   the modes, so that the entry at row ravel(i_0..i_{d-1}), column ravel(o_0..o_{d-1}) is [mentry].  No proofs here. *)
From TN Require Export Sem.Score.

Section Matrix.
Variable K : Ops.
Local Open Scope K_scope.

Record mcore := mkMC { ml : nat; mr : nat; mi : nat; mo : nat; msl : nat -> nat -> nat -> nat -> K }.  (* msl i o p q *)

(* c.reshape(c.shape[0], -1, c.shape[-1]) : the spatial index is a = i * O + o *)
Definition flat (c : mcore) : score K :=
  mkScore (ml c) (mr c) (mi c * mo c) (fun a p q => msl c (a / mo c) (a mod mo c) p q).
Fixpoint mzip (cs : list mcore) (ii oo : list nat) : list nat :=
  match cs, ii, oo with
  | c :: cs', i :: ii', o :: oo' => (i * mo c + o)%nat :: mzip cs' ii' oo'
  | _, _, _ => []
  end.
Definition idims (cs : list mcore) := map mi cs.
Definition odims (cs : list mcore) := map mo cs.
Definition mentry (cs : list mcore) (ii oo : list nat) : K := eval (map flat cs) (mzip cs ii oo).

(* TTMatrix.trace(): factor = ones(1); for c in cores: factor = einsum("i,iaaj->j", factor, c); return factor[0] *)
Definition trace_step (f : nat -> K) (c : mcore) : nat -> K :=
  fun q => sumn (ml c) (fun p => sumn (mi c) (fun a => f p * msl c a a p q)).
Definition trace (cs : list mcore) : K := fold_left trace_step cs (fun _ => 1) O.

(* tt_multiply(ttm, x): result indexed by (remaining input indices, [batch], outputs so far, bond); one contraction per core:
   einsum("id,lior->ldor") then einsum("idr,riob->dob").  [x] is one batch row as a function of the input multi-index. *)
Fixpoint mul_loop (cs : list mcore) (R : list nat -> nat -> K) (oo : list nat) : K :=
  match cs, oo with
  | c :: cs', o :: oo' =>
      mul_loop cs' (fun ii' r' => sumn (mi c) (fun i => sumn (ml c) (fun r => R (i :: ii') r * msl c i o r r'))) oo'
  | _, _ => R [] O
  end.
Definition tt_multiply (cs : list mcore) (x : list nat -> K) (oo : list nat) : K := mul_loop cs (fun ii _ => x ii) oo.

(* bonds: left bond r0, adjacent bonds equal, last right bond 1 *)
Fixpoint chainm (r0 : nat) (cs : list mcore) : Prop :=
  match cs with [] => r0 = 1%nat | c :: cs' => ml c = r0 /\ chainm (mr c) cs' end.
Fixpoint in_dims (ds idx : list nat) : Prop :=
  match ds, idx with [], [] => True | d :: ds', i :: idx' => (i < d)%nat /\ in_dims ds' idx' | _, _ => False end.

(* row-major flat indices: row = ravel (i_0..i_{d-1}), column = ravel (o_0..o_{d-1}) *)
Definition prodl (ds : list nat) : nat := fold_right Nat.mul 1%nat ds.
Fixpoint ravel (ds idx : list nat) : nat :=
  match ds, idx with _ :: ds', i :: idx' => (i * prodl ds' + ravel ds' idx')%nat | _, _ => O end.
Fixpoint unravel (ds : list nat) (n : nat) : list nat :=
  match ds with [] => [] | _ :: ds' => (n / prodl ds')%nat :: unravel ds' (n mod prodl ds') end.
Definition mat (cs : list mcore) (row col : nat) : K := mentry cs (unravel (idims cs) row) (unravel (odims cs) col).

(* ---- CP matrices: cores (i, o, r) ---- *)
Record cpcore := mkCPC { ci : nat; co : nat; cg : nat -> nat -> nat -> K }.     (* cg i o r *)
Fixpoint cp_prod (cs : list cpcore) (ii oo : list nat) (r : nat) : K :=
  match cs, ii, oo with
  | c :: cs', i :: ii', o :: oo' => cg c i o r * cp_prod cs' ii' oo' r
  | _, _, _ => 1
  end.
Definition cp_entry (R : nat) (cs : list cpcore) (ii oo : list nat) : K := sumn R (cp_prod cs ii oo).
Definition cidims (cs : list cpcore) := map ci cs.
(* cp_multiply: einsum("ij,ior->jor") then einsum("ior,idr->dor"), finally .sum(-1) *)
Fixpoint cp_loop (cs : list cpcore) (Rf : list nat -> nat -> K) (oo : list nat) (R : nat) : K :=
  match cs, oo with
  | c :: cs', o :: oo' => cp_loop cs' (fun ii' r => sumn (ci c) (fun i => cg c i o r * Rf (i :: ii') r)) oo' R
  | _, _ => sumn R (fun r => Rf [] r)
  end.
Definition cp_multiply (R : nat) (cs : list cpcore) (x : list nat -> K) (oo : list nat) : K :=
  cp_loop cs (fun ii _ => x ii) oo R.

(* ---- Kronecker products: all bonds 1 ---- *)
Definition kmat (c : mcore) : nat -> nat -> K := fun i o => msl c i o O O.
Fixpoint kentry (ms : list (nat -> nat -> K)) (ii oo : list nat) : K :=
  match ms, ii, oo with
  | m :: ms', i :: ii', o :: oo' => m i o * kentry ms' ii' oo'
  | _, _, _ => 1
  end.
Definition of_mat (n : nat) (m : nat -> nat -> K) : mcore := mkMC 1 1 n n (fun i o _ _ => m i o).
Definition is_kron (cs : list mcore) : Prop := Forall (fun c => ml c = 1%nat /\ mr c = 1%nat) cs.
Definition matmul (n : nat) (a b : nat -> nat -> K) : nat -> nat -> K := fun i o => sumn n (fun m => a i m * b m o).
Fixpoint zip_matmul (ds : list nat) (xs ys : list (nat -> nat -> K)) : list (nat -> nat -> K) :=
  match ds, xs, ys with d :: ds', a :: xs', b :: ys' => matmul d a b :: zip_matmul ds' xs' ys' | _, _, _ => [] end.
(* TTMatrix.inv() / cholesky(): the per-block kernel (torch.linalg.inv / cholesky) is an oracle f *)
Definition kron_map (f : nat -> (nat -> nat -> K) -> nat -> nat -> K) (cs : list mcore) : list mcore :=
  map (fun c => of_mat (mi c) (f (mi c) (kmat c))) cs.
End Matrix.
Arguments mat {K}.
Arguments mkMC {K}. Arguments ml {K}. Arguments mr {K}. Arguments mi {K}. Arguments mo {K}. Arguments msl {K}.
Arguments flat {K}. Arguments mzip {K}. Arguments idims {K}. Arguments odims {K}. Arguments mentry {K}.
Arguments trace_step {K}. Arguments trace {K}. Arguments mul_loop {K}. Arguments tt_multiply {K}. Arguments chainm {K}.
Arguments mkCPC {K}. Arguments ci {K}. Arguments co {K}. Arguments cg {K}. Arguments cp_prod {K}. Arguments cp_entry {K}.
Arguments cidims {K}. Arguments cp_loop {K}. Arguments cp_multiply {K}. Arguments kmat {K}. Arguments kentry {K}.
Arguments of_mat {K}. Arguments is_kron {K}. Arguments matmul {K}. Arguments zip_matmul {K}. Arguments kron_map {K}.
