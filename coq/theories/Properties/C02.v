(* C02 -- compressed arithmetic equals element-wise arithmetic on the dense arrays.
   Statements only; every proof is one [exact] of a lemma from Proofs/ArithP.v.
   [den t] is what Tensor.torch() returns (Model/Format.v); the kernels are Model/Arith.v. *)
From TN Require Import Proofs.ArithP Alg.Inst Harness.HBase.
From Coq Require Import Reals.

Section C02.
Variable K : Ops.
Hypothesis Kth : laws K.
Local Open Scope K_scope.

(* a + b, any formats, NumPy broadcasting of size-1 modes *)
Theorem C02_add : forall (a b : tensor K) cs,
  wf_tensor a = true -> wf_tensor b = true -> add_net (sem a) (sem b) = Some cs ->
  bshape (shape a) (shape b) = Some (sshape cs) /\
  forall idx, length idx = length cs ->
    eval cs idx = den a (clip (shape a) idx) + den b (clip (shape b) idx).
Proof.
  intros a b cs Ha Hb H.
  destruct (add_net_sound K Kth _ _ cs (wf_tensor_good K a Ha) (wf_tensor_good K b Hb) H) as (_ & S & E).
  rewrite !sshape_sem in *. split; [exact S|exact E].
Qed.

Theorem C02_mul : forall (a b : tensor K) cs,
  wf_tensor a = true -> wf_tensor b = true -> mul_net (sem a) (sem b) = Some cs ->
  bshape (shape a) (shape b) = Some (sshape cs) /\
  forall idx, length idx = length cs ->
    eval cs idx = den a (clip (shape a) idx) * den b (clip (shape b) idx).
Proof.
  intros a b cs Ha Hb H.
  destruct (mul_net_sound K Kth _ _ cs (wf_tensor_good K a Ha) (wf_tensor_good K b Hb) H) as (_ & S & E).
  rewrite !sshape_sem in *. split; [exact S|exact E].
Qed.

(* compatible shapes always give a result (no spurious failure) *)
Theorem C02_defined : forall (a b : tensor K) s,
  bshape (shape a) (shape b) = Some s ->
  (exists cs, add_net (sem a) (sem b) = Some cs) /\ (exists cs, mul_net (sem a) (sem b) = Some cs).
Proof.
  intros a b s H. rewrite <- !sshape_sem in H.
  destruct (bcast_defined K _ _ s H) as (a' & b' & E).
  unfold add_net, mul_net. rewrite E. split; eexists; reflexivity.
Qed.

(* scalar * tensor: core n is scaled by phis[n]; the code uses |c|^(1/N) on every core and the
   sign on core 0, any choice with product c gives c * dense *)
Theorem C02_scalar_mul : forall (t : tensor K) (phis : list K),
  wf_tensor t = true -> length phis = length t ->
  forall idx, length idx = length t ->
    eval (smul_net phis (sem t)) idx = prodl phis * den t idx.
Proof.
  intros t phis Ht Hl idx Hi.
  destruct (smul_net_sound K Kth phis (sem t) (wf_tensor_good K t Ht)) as (_ & _ & E).
  - unfold sem. rewrite map_length. exact Hl.
  - apply E. unfold sem. rewrite map_length. exact Hi.
Qed.

Theorem C02_scalar_add : forall (t : tensor K) (c : K) cs,
  wf_tensor t = true -> sadd_net c (sem t) = Some cs ->
  sshape cs = shape t /\
  forall idx, in_range (shape t) idx = true -> eval cs idx = den t idx + c.
Proof.
  intros t c cs Ht H.
  destruct (sadd_net_sound K Kth c (sem t) cs (wf_tensor_good K t Ht) H) as (_ & S & E).
  rewrite sshape_sem in *. split; [exact S|exact E].
Qed.

(* any expression tree over + - * unary- and scalar operations on either side *)
Theorem C02_expr : forall (e : expr K) (env : nat -> tensor K) cs,
  (forall n, wf_tensor (env n) = true) ->
  interp (fun n => sem (env n)) e = Some cs ->
  exists dv, dense_interp (fun n => (shape (env n), den (env n))) e = Some dv /\
    fst dv = sshape cs /\
    forall idx, in_range (sshape cs) idx = true -> eval cs idx = snd dv idx.
Proof.
  intros e env cs Hwf H.
  destruct (interp_sound K Kth e (fun n => sem (env n)) (fun n => (shape (env n), den (env n))) cs) as (_ & R); auto.
  intros n. split; [apply wf_tensor_good; auto|]. rewrite sshape_sem. reflexivity.
Qed.

End C02.

(* the scaling the code applies: f = |c|^(1/N) on each of the N cores, sign(c) on the first *)
Lemma C02_root_scaling : forall (c : R) (N : nat), (0 < N)%nat -> c <> 0%R ->
  (Rpower (Rabs c) (/ INR N) ^ N)%R = Rabs c.
Proof.
  intros c N HN Hc.
  assert (Hp: (0 < Rabs c)%R) by (apply Rabs_pos_lt; exact Hc).
  rewrite <- Rpower_pow by (apply exp_pos).
  rewrite Rpower_mult. rewrite Rinv_l.
  - apply Rpower_1. exact Hp.
  - apply not_0_INR. lia.
Qed.

(* non-vacuity: a hybrid CP/TT-Tucker pair satisfying every hypothesis, evaluated *)
Definition exA : tensor ZO :=
  [zM (zCP 2 2 [1;2;3;4]%Z) None; zM (zTT 2 2 1 [1;0;2;1]%Z) (zU 3 2 [1;1;0;2;1;0]%Z)].
Definition exB : tensor ZO :=
  [zM (zTT 1 1 2 [1;2]%Z) None; zM (zCP 3 2 [1;0;2;1;0;3]%Z) None].
Example C02_nonvacuous :
  wf_tensor exA = true /\ wf_tensor exB = true /\
  exists cs, add_net (sem exA) (sem exB) = Some cs /\ sshape cs = [2;3]%nat /\
             eval cs [1;2]%nat = (den exA [1;2]%nat + den exB [0;2]%nat)%Z.
Proof. repeat split. eexists. split; [reflexivity|]. split; vm_compute; reflexivity. Qed.

Print Assumptions C02_add.
Print Assumptions C02_mul.
Print Assumptions C02_defined.
Print Assumptions C02_scalar_mul.
Print Assumptions C02_scalar_add.
Print Assumptions C02_expr.
Print Assumptions C02_root_scaling.
