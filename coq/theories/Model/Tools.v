(* tools.py / ops.py / metrics.sum: every routine here changes one mode at a time by a linear map on
   that mode's index (einsum with a matrix on the core or on its Tucker factor) or by re-indexing it
   (index_select on the core or on the factor): ttm, flip, cumsum, repeat, zero padding, the zero
   embedding used by cat, the ones-vector contraction used by sum/mean.  No proofs in this file. *)
From TN Require Export Model.Arith.

Section Tools.
Variable K : Ops.
Local Open Scope K_scope.
Notation net := (list (score K)).

Definition at_mode (k : nat) (f : score K -> score K) (cs : net) : net :=
  match nth_error cs k with Some c => upd k cs (f c) | None => cs end.

(* tn.ttm(t, M, dim=k): M has [rows] rows and dm c columns (transpose=True passes M^T) *)
Definition ttm_net (k rows : nat) (M : nat -> nat -> K) : net -> net := at_mode k (lin M rows).
(* tn.flip *)
Definition flip_net (k : nat) : net -> net :=
  at_mode k (fun c => reidx (fun i => dm c - 1 - i)%nat (dm c) c).
(* tn.cumsum: torch.cumsum of the core / factor along the spatial axis *)
Definition cumsum_net (k : nat) : net -> net :=
  at_mode k (fun c => lin (fun i j => if (j <=? i)%nat then 1 else 0) (dm c) c).
(* Tensor.repeat on one mode *)
Definition repeat_net (k r : nat) : net -> net := at_mode k (rep_mode r).
(* zero embedding of mode k into a mode of size tot at offset off (cat, pad with fill 0) *)
Definition embed_net (k off tot : nat) : net -> net :=
  at_mode k (fun c => lin (fun i j => delta i (off + j)%nat) tot c).
(* metrics.sum(keepdim=True) on one mode: ttm with a vector of ones; mean: ones / n *)
Definition sum_net (k : nat) : net -> net := at_mode k (lin (fun _ _ => 1) 1).
Definition wsum_net (k : nat) (w : nat -> K) : net -> net := at_mode k (lin (fun _ j => w j) 1).
(* index_select of a mode (slices of unbind, mask re-indexing with clamping) *)
Definition select_net (k d' : nat) (g : nat -> nat) : net -> net := at_mode k (reidx g d').

(* tn.cat of two tensors along mode k: each operand embedded in zeros, then added *)
Definition cat2_net (k : nat) (a b : net) : option net :=
  match nth_error a k, nth_error b k with
  | Some ca, Some cb =>
      add_net (embed_net k 0 (dm ca + dm cb) a) (embed_net k (dm ca) (dm ca + dm cb) b)
  | _, _ => None
  end.

End Tools.
Arguments at_mode {K}. Arguments ttm_net {K}. Arguments flip_net {K}. Arguments cumsum_net {K}.
Arguments repeat_net {K}. Arguments embed_net {K}. Arguments sum_net {K}. Arguments wsum_net {K}.
Arguments select_net {K}. Arguments cat2_net {K}.
