(* Orthogonalisation (Tensor.left_orthogonalize / right_orthogonalize / factor_orthogonalize / orthogonalize)
   with the QR factorisation as an oracle: [qr m n A] returns (k, Q, R) with A = Q R (m x k times k x n).
   The contract of the oracle (exact factorisation, orthonormal columns of Q) is a hypothesis of the theorems,
   never an axiom; the harness checks it numerically on every call torch.linalg.qr actually receives.
   No proofs in this file. *)
From TN Require Export Model.Format.
Section Ortho.
Variable K : Ops.
Local Open Scope K_scope.
Definition matrix := nat -> nat -> K.
Variable qr : nat -> nat -> matrix -> nat * matrix * matrix.

(* left unfolding of a core: rows (p, i) -> p * dm + i, columns q *)
Definition left_unf (c : score K) : matrix := fun a q => sl c (a mod dm c) (a / dm c) q.
(* right unfolding transposed (the code QR-factorises right_unfolding(core)^T): rows (i, q) -> i * rr + q, columns p *)
Definition right_unf_t (c : score K) : matrix := fun a p => sl c (a / rr c) p (a mod rr c).

(* left_orthogonalize(mu): core mu <- Q (reshaped), core mu+1 <- R x core mu+1 *)
Definition left_step (c next : score K) : score K * score K :=
  let '(k, Q, R) := qr (rl c * dm c) (rr c) (left_unf c) in
  (mkScore (rl c) k (dm c) (fun i p s => Q (p * dm c + i)%nat s), lmulM R next k).
(* right_orthogonalize(mu): core mu <- Q^T (reshaped), core mu-1 <- core mu-1 x L,  L = R^T *)
Definition right_step (prev c : score K) : score K * score K :=
  let '(k, Q, R) := qr (dm c * rr c) (rl c) (right_unf_t c) in
  (rmulM prev (fun s t => R t s) k, mkScore k (rr c) (dm c) (fun i s q => Q (i * rr c + q)%nat s)).

(* gauge conditions *)
Definition left_orthonormal (c : score K) : Prop := forall s t, (s < rr c)%nat -> (t < rr c)%nat ->
  sumn (rl c) (fun p => sumn (dm c) (fun i => sl c i p s * sl c i p t)) = delta s t.
Definition right_orthonormal (c : score K) : Prop := forall s t, (s < rl c)%nat -> (t < rl c)%nat ->
  sumn (dm c) (fun i => sumn (rr c) (fun q => sl c i s q * sl c i t q)) = delta s t.

Definition qr_exact (m n : nat) (A : matrix) : Prop :=
  let '(k, Q, R) := qr m n A in forall a j, (a < m)%nat -> (j < n)%nat -> A a j = sumn k (fun s => Q a s * R s j).
Definition qr_orthonormal (m n : nat) (A : matrix) : Prop :=
  let '(k, Q, R) := qr m n A in forall s t, (s < k)%nat -> (t < k)%nat -> sumn m (fun a => Q a s * Q a t) = delta s t.
End Ortho.
Arguments left_unf {K}. Arguments right_unf_t {K}. Arguments left_step {K}. Arguments right_step {K}.
Arguments left_orthonormal {K}. Arguments right_orthonormal {K}. Arguments qr_exact {K}. Arguments qr_orthonormal {K}.
