(* Scalars: a record of operations; laws are a separate hypothesis, so that the
   executable definitions can be run on any carrier (Z, Q with Qred, dual numbers)
   while the theorems hold for every carrier satisfying [laws]. *)
From Coq Require Export List Arith Lia ZArith Ring Bool.
Export ListNotations.

Record Ops := mkOps {
  car :> Type;
  r0 : car; r1 : car;
  radd : car -> car -> car; rmul : car -> car -> car;
  rsub : car -> car -> car; ropp : car -> car }.

Notation laws K :=
  (ring_theory (r0 K) (r1 K) (radd K) (rmul K) (rsub K) (ropp K) (@eq (car K))).

Declare Scope K_scope.
Delimit Scope K_scope with K.
Notation "0" := (r0 _) : K_scope.
Notation "1" := (r1 _) : K_scope.
Infix "+" := (radd _) : K_scope.
Infix "*" := (rmul _) : K_scope.
Infix "-" := (rsub _) : K_scope.
Notation "- x" := (ropp _ x) : K_scope.

Section Sums.
Variable K : Ops.
Local Open Scope K_scope.

Fixpoint sumn (n : nat) (f : nat -> K) : K :=
  match n with O => 0 | S k => sumn k f + f k end.

Definition delta (a b : nat) : K := if Nat.eqb a b then 1 else 0.

(* sum over all index tuples of a shape *)
Fixpoint sumidx (ds : list nat) (f : list nat -> K) : K :=
  match ds with
  | [] => f []
  | d :: ds' => sumn d (fun i => sumidx ds' (fun idx => f (i :: idx)))
  end.

Hypothesis Kth : laws K.
Add Ring Kring : Kth.

Lemma sumn_ext n f g : (forall i, (i < n)%nat -> f i = g i) -> sumn n f = sumn n g.
Proof. induction n; simpl; intros H; [reflexivity|]. rewrite IHn, H; auto. Qed.

Lemma sumn_add n f g : sumn n (fun i => f i + g i) = sumn n f + sumn n g.
Proof. induction n; simpl; [ring|]. rewrite IHn. ring. Qed.

Lemma sumn_sub n f g : sumn n (fun i => f i - g i) = sumn n f - sumn n g.
Proof. induction n; simpl; [ring|]. rewrite IHn. ring. Qed.

Lemma sumn_mul_l n c f : sumn n (fun i => c * f i) = c * sumn n f.
Proof. induction n; simpl; [ring|]. rewrite IHn. ring. Qed.

Lemma sumn_mul_r n c f : sumn n (fun i => f i * c) = sumn n f * c.
Proof. induction n; simpl; [ring|]. rewrite IHn. ring. Qed.

Lemma sumn_zero n : sumn n (fun _ => 0) = 0.
Proof. induction n; simpl; [ring|]. rewrite IHn. ring. Qed.

Lemma sumn_zero_ext n f : (forall i, (i < n)%nat -> f i = 0) -> sumn n f = 0.
Proof. intros H. rewrite (sumn_ext n f (fun _ => 0)); auto using sumn_zero. Qed.

Lemma sumn_1 f : sumn 1 f = f O.
Proof. simpl. ring. Qed.

Lemma sumn_app n m f : sumn (n + m) f = sumn n f + sumn m (fun i => f (n + i)%nat).
Proof. induction m; simpl. rewrite Nat.add_0_r. ring.
  rewrite Nat.add_succ_r. simpl. rewrite IHm. ring. Qed.

Lemma sumn_exch n m f :
  sumn n (fun i => sumn m (fun j => f i j)) = sumn m (fun j => sumn n (fun i => f i j)).
Proof. induction n; simpl. rewrite sumn_zero; reflexivity.
  rewrite IHn, <- sumn_add. reflexivity. Qed.

Lemma sumn_prod a b f :
  sumn (a * b) f = sumn a (fun i => sumn b (fun j => f (i * b + j)%nat)).
Proof. induction a; simpl; [reflexivity|].
  rewrite Nat.add_comm, sumn_app, IHa. reflexivity. Qed.

Lemma sumn_sumn_mul a b f g :
  sumn a (fun i => sumn b (fun j => f i * g j)) = sumn a f * sumn b g.
Proof. rewrite <- sumn_mul_r. apply sumn_ext; intros. apply sumn_mul_l. Qed.

Lemma sumn_delta n k f : (k < n)%nat -> sumn n (fun i => delta k i * f i) = f k.
Proof. induction n; intros H; [lia|]. simpl. unfold delta at 2.
  destruct (Nat.eqb_spec k n).
  - subst. rewrite sumn_zero_ext. ring.
    intros i Hi. unfold delta. destruct (Nat.eqb_spec n i); [lia|ring].
  - rewrite IHn by lia. ring. Qed.

Lemma sumn_delta_r n k f : (k < n)%nat -> sumn n (fun i => f i * delta i k) = f k.
Proof. intros H. rewrite <- (sumn_delta n k f H). apply sumn_ext. intros i _.
  unfold delta. rewrite Nat.eqb_sym. ring. Qed.

Lemma sumn_S_front n f : sumn (S n) f = f O + sumn n (fun i => f (S i)).
Proof. induction n; [simpl; ring|]. cbn [sumn] in *. rewrite IHn. ring. Qed.

Lemma sumn_rev n : forall f, sumn n (fun i => f (n - 1 - i)%nat) = sumn n f.
Proof. induction n; intros f; [reflexivity|].
  rewrite (sumn_S_front n f). cbn [sumn]. replace (S n - 1 - n)%nat with O by lia.
  rewrite (sumn_ext n _ (fun i => (fun j => f (S j)) (n - 1 - i)%nat)).
  2:{ intros i Hi. cbv beta. f_equal. lia. }
  rewrite (IHn (fun j => f (S j))). ring. Qed.

Lemma sumidx_ext ds : forall f g, (forall idx, f idx = g idx) -> sumidx ds f = sumidx ds g.
Proof. induction ds; intros; simpl; auto. apply sumn_ext; intros. apply IHds. auto. Qed.

Lemma sumidx_add ds : forall f g,
  sumidx ds (fun i => f i + g i) = sumidx ds f + sumidx ds g.
Proof. induction ds; intros; simpl; auto. rewrite <- sumn_add.
  apply sumn_ext; intros. apply IHds. Qed.

Lemma sumidx_mul_l ds : forall c f, sumidx ds (fun i => c * f i) = c * sumidx ds f.
Proof. induction ds; intros; simpl; auto. rewrite <- sumn_mul_l.
  apply sumn_ext; intros. apply IHds. Qed.

Lemma sumidx_mul_r ds : forall c f, sumidx ds (fun i => f i * c) = sumidx ds f * c.
Proof. induction ds; intros; simpl; auto. rewrite <- sumn_mul_r.
  apply sumn_ext; intros. apply IHds. Qed.

Lemma sumidx_sumn ds : forall n f,
  sumidx ds (fun idx => sumn n (fun q => f idx q)) =
  sumn n (fun q => sumidx ds (fun idx => f idx q)).
Proof. induction ds; intros; simpl; auto.
  rewrite sumn_exch. apply sumn_ext; intros. apply IHds. Qed.

Lemma sumidx_zero ds : sumidx ds (fun _ => 0) = 0.
Proof. induction ds; simpl; auto. apply sumn_zero_ext. intros. apply IHds. Qed.

End Sums.

Arguments sumn {K} n f.
Arguments sumn_ext {K}.
Arguments sumn_add {K}.
Arguments sumn_sub {K}.
Arguments sumn_mul_l {K}.
Arguments sumn_mul_r {K}.
Arguments sumn_zero {K}.
Arguments sumn_zero_ext {K}.
Arguments sumn_1 {K}.
Arguments sumn_app {K}.
Arguments sumn_exch {K}.
Arguments sumn_prod {K}.
Arguments sumn_sumn_mul {K}.
Arguments sumn_delta {K}.
Arguments sumn_delta_r {K}.
Arguments sumn_S_front {K}.
Arguments sumn_rev {K}.
Arguments sumidx_ext {K}.
Arguments sumidx_add {K}.
Arguments sumidx_mul_l {K}.
Arguments sumidx_mul_r {K}.
Arguments sumidx_sumn {K}.
Arguments sumidx_zero {K}.
Arguments delta {K} a b.
Arguments sumidx {K} ds f.

(* index tuples in range *)
Fixpoint in_range (shape idx : list nat) : bool :=
  match shape, idx with
  | [], [] => true
  | d :: s', i :: idx' => (i <? d)%nat && in_range s' idx'
  | _, _ => false
  end.

Lemma in_range_length s : forall idx, in_range s idx = true -> length idx = length s.
Proof. induction s; destruct idx; simpl; intros; try discriminate; auto.
  apply andb_true_iff in H. f_equal. apply IHs. tauto. Qed.

Fixpoint upd {A} (k : nat) (l : list A) (x : A) : list A :=
  match l, k with
  | [], _ => []
  | _ :: t, O => x :: t
  | h :: t, S k' => h :: upd k' t x
  end.

Lemma upd_length {A} k : forall (l : list A) x, length (upd k l x) = length l.
Proof. induction k; destruct l; simpl; intros; auto. Qed.
