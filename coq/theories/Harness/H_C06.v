From TN Require Export Harness.HBase Sem.Fast Model.Dot Model.Tools Model.Hsum.
From Coq Require Import QArith.

Section H.
Variable K : Ops.
Variable cmp : K -> K -> bool.

Inductive op6 :=
| ODot (a b : tensor K) (k : nat)                       (* tn.dot(a, b, k) *)
| OSum (a : tensor K) (dims : list nat)                 (* tn.sum(a, dim=dims): values only *)
| OWsum (a : tensor K) (dw : list (nat * list K))       (* mean: mode d weighted by w (already normalised) *)
| OHsum (ts : list (tensor K)).                         (* tn.hadamard_sum(ts): sum of the entrywise product *)

Record case := mkCase { c_op : op6; c_shape : list nat; c_dense : list K }.

Definition dot_dense (a b : tensor K) (k : nat) : list nat * list K :=
  let sa := skipn k (shape a) in let sb := skipn k (shape b) in
  let na := length sa in
  let sh := match sa, sb with
            | [], _ => sb
            | _, [] => sa
            | _, _ => rev sa ++ sb
            end in
  (sh, map (fun idx =>
         match sa, sb with
         | [], _ => dot_partial k (sem a) (sem b) [] idx
         | _, [] => dot_partial k (sem a) (sem b) idx []
         | _, _ => dot_partial k (sem a) (sem b) (rev (firstn na idx)) (skipn na idx)
         end) (all_idx sh)).

Definition run (o : op6) : list nat * list K :=
  match o with
  | ODot a b k => dot_dense a b k
  | OSum a dims =>
      let cs := fold_left (fun cs d => sum_net d cs) dims (sem a) in (sshape cs, dense_of (eval_l cs) (sshape cs))
  | OWsum a dw =>
      let cs := fold_left (fun cs (p : nat * list K) => wsum_net (fst p) (fun j => nth j (snd p) (r0 K)) cs) dw (sem a) in
      (sshape cs, dense_of (eval_l cs) (sshape cs))
  | OHsum ts => ([], match hsum_net (map sem ts) with Some v => [v] | None => [] end)
  end.

(* shapes are compared up to removal of the reduced (size-1) modes: values in row-major order coincide *)
Definition check (c : case) : bool :=
  let r := run (c_op c) in
  match c_op c with
  | ODot _ _ _ => shape_eqb (fst r) (c_shape c) && list_cmp cmp (snd r) (c_dense c)
  | _ => list_cmp cmp (snd r) (c_dense c)
  end.
End H.

Definition checkZ := check ZO cmpZ.
Definition checkQ := check QO cmpQ.
Definition caseT := (case ZO + case QO)%type.
Definition cZ (c : case ZO) : caseT := inl c.
Definition cQ (c : case QO) : caseT := inr c.
Definition check_any (c : caseT) : bool := match c with inl z => checkZ z | inr q => checkQ q end.
Definition zDot := @ODot ZO. Definition zSum := @OSum ZO. Definition qWsum := @OWsum QO. Definition zHsum := @OHsum ZO.
Definition mkZ := mkCase ZO. Definition mkQ := mkCase QO.
