(* C16 -- weight automata accept exactly the strings they describe; accepted_inputs enumerates
   every index with a non-zero entry, with multiplicity, in lexicographic order.
   Models: Model/Automata.v.  Statements only. *)
From TN Require Import Proofs.AutomataP Proofs.AcceptedP Alg.Inst.

Section C16.
Variable K : Ops.
Hypothesis Kth : laws K.
Local Open Scope K_scope.

(* weight_one_hot: on the open last bond, position k carries [sum x = k]; sums >= r fall off *)
Theorem C16_one_hot : forall (r : nat) (nss idx : list nat) (v : nat -> K),
  nss <> [] -> length idx = length nss -> (0 < r)%nat ->
  evalv (one_hot_net (K:=K) r nss) idx v O = if (sumlist idx <? r)%nat then v (sumlist idx) else 0.
Proof. exact (one_hot_sound K Kth). Qed.

(* weight_mask: the number of requested weights equal to the string's sum (1/0 for a duplicate-free list) *)
Theorem C16_mask : forall (w nss idx : list nat), nss <> [] -> length idx = length nss ->
  eval (weight_mask_net (K:=K) w nss) idx = of_nat (count_occ_nat w (sumlist idx)).
Proof. exact (weight_mask_sound K Kth). Qed.

(* weight: the sum of the symbols *)
Theorem C16_weight : forall (nss idx : list nat), nss <> [] -> length idx = length nss ->
  eval (weight_net (K:=K) nss) idx = of_nat (sumlist idx).
Proof. exact (weight_sound K Kth). Qed.
End C16.

Corollary C16_mask_01 : forall (w nss idx : list nat), nss <> [] -> length idx = length nss -> NoDup w ->
  eval (K:=ZO) (weight_mask_net w nss) idx = if in_dec Nat.eq_dec (sumlist idx) w then 1%Z else 0%Z.
Proof.
  intros w nss idx Hne Hl Hnd. rewrite (C16_mask ZO ZO_laws) by assumption.
  generalize (sumlist idx) as q. intros q.
  induction w as [|x w IH]; [reflexivity|]. inversion Hnd as [|? ? Hx Hnd']; subst.
  cbn [count_occ_nat]. destruct (Nat.eqb_spec x q) as [->|Hne'].
  - destruct (in_dec Nat.eq_dec q (q :: w)) as [_|H]; [|exfalso; apply H; left; auto].
    assert (E: count_occ_nat w q = O).
    { clear - Hx. induction w as [|y w IHw]; [reflexivity|]. cbn [count_occ_nat].
      destruct (Nat.eqb_spec y q); [subst; exfalso; apply Hx; left; auto|].
      apply IHw. intros H; apply Hx; right; auto. }
    rewrite E. reflexivity.
  - specialize (IH Hnd'). rewrite Nat.add_0_l, IH.
    destruct (in_dec Nat.eq_dec q w), (in_dec Nat.eq_dec q (x :: w)) as [H|H]; try reflexivity.
    + exfalso; apply H; right; auto.
    + destruct H; [congruence|contradiction].
Qed.

(* tn.weight_mask as implemented (requested weights de-duplicated first): exactly 1 on the strings whose sum is
   requested and 0 on all others, for every list of weights *)
Corollary C16_mask_accepts_exactly : forall (w nss idx : list nat), nss <> [] -> length idx = length nss ->
  eval (K:=ZO) (weight_mask_u w nss) idx = if in_dec Nat.eq_dec (sumlist idx) w then 1%Z else 0%Z.
Proof.
  intros w nss idx Hne Hl. unfold weight_mask_u.
  rewrite C16_mask_01 by (try assumption; apply NoDup_nodup).
  destruct (in_dec Nat.eq_dec (sumlist idx) (nodup Nat.eq_dec w)) as [H|H],
           (in_dec Nat.eq_dec (sumlist idx) w) as [H'|H']; try reflexivity; exfalso.
  - apply H'. apply (nodup_In Nat.eq_dec). exact H.
  - apply H. apply (nodup_In Nat.eq_dec). exact H'.
Qed.

(* accepted_inputs, for non-negative integer-valued TT networks (first bond 1) *)
Theorem C16_accepted : forall (cs : list (score ZO)), cs <> [] ->
  chain (match cs with c :: _ => rl c | [] => O end) cs = true ->
  (match cs with c :: _ => rl c | [] => O end) = 1%nat ->
  (forall idx, In idx (all_idx (sshape cs)) -> (0 <= eval (K:=ZO) cs idx)%Z) ->
  accepted_inputs cs =
  flat_map (fun idx => repeat idx (Z.to_nat (eval (K:=ZO) cs idx))) (all_idx (sshape cs)).
Proof. exact accepted_inputs_sound. Qed.

Example C16_nonvacuous :
  dense_of (eval (K:=ZO) (weight_mask_net [1;3]%nat [3;2;3]%nat)) [3;2;3]%nat =
    [0;1;0;1;0;1; 1;0;1;0;1;0; 0;1;0;1;0;0]%Z /\
  accepted_inputs (weight_mask_net (K:=ZO) [2]%nat [2;2;2]%nat) = [[0;1;1];[1;0;1];[1;1;0]]%nat.
Proof. split; vm_compute; reflexivity. Qed.

Print Assumptions C16_one_hot.
Print Assumptions C16_mask.
Print Assumptions C16_mask_01.
Print Assumptions C16_mask_accepts_exactly.
Print Assumptions C16_weight.
Print Assumptions C16_accepted.
