(* Comparison helpers evaluated by vm_compute in the correspondence runs. *)
From TN Require Export Model.Format Alg.Inst.
From Coq Require Import QArith Qabs.

Fixpoint list_eqb {A} (eqb : A -> A -> bool) (l1 l2 : list A) : bool :=
  match l1, l2 with
  | [], [] => true
  | x :: t1, y :: t2 => eqb x y && list_eqb eqb t1 t2
  | _, _ => false
  end.

Fixpoint list_cmp {A B} (cmp : A -> B -> bool) (l1 : list A) (l2 : list B) : bool :=
  match l1, l2 with
  | [], [] => true
  | x :: t1, y :: t2 => cmp x y && list_cmp cmp t1 t2
  | _, _ => false
  end.

(* exact model value x against the implementation's (rounded) value y: |x-y| <= 1e-9 (1+|x|) *)
Definition qtol : Q := 1 # 1000000000.
Definition cmpQ (x y : Q) : bool := Qle_bool (Qabs (x - y)) (qtol * (1 + Qabs x)).
Definition cmpZ (x y : Z) : bool := Z.eqb x y.

Definition shape_eqb := list_eqb Nat.eqb.

(* carrier-specialised literal constructors (the harness prints these) *)
Definition zTT := @lit_tt ZO. Definition zCP := @lit_cp ZO. Definition zU := @lit_U ZO.
Definition zM := @mkMode ZO.
Definition qTT := @lit_tt QO. Definition qCP := @lit_cp QO. Definition qU := @lit_U QO.
Definition qM := @mkMode QO.
