(* Tensor.__getitem__ (non-batch), as a left-to-right state machine over the key:
   state = pending factor of the integer-indexed modes since the last emitted core (factors["int"]: a
   vector for CP cores, a matrix for TT cores -- here always the matrix, a CP vector being its diagonal),
   and the emitted cores.  Integers multiply the pending factor by the selected slice; a slice / a run of
   index arrays emits a core with the pending factor absorbed from the left (join_cores); the final flush
   absorbs a trailing pending factor into the last emitted core, or returns the scalar.
   An index-array run (equal-length arrays on consecutive modes) is fused into one core whose a-th slice
   is the product of the selected slices.  No proofs in this file. *)
From TN Require Export Model.Format.
Section GetItem.
Variable K : Ops.
Local Open Scope K_scope.
Notation net := (list (score K)).

Record mat := mkMat { mr : nat; mc : nat; me : nat -> nat -> K }.
Definition mv (M : mat) (v : nat -> K) : nat -> K := fun p => sumn (mc M) (fun q => me M p q * v q).
Definition mm (A B : mat) : mat := mkMat (mr A) (mc B) (fun p q => sumn (mc A) (fun s => me A p s * me B s q)).
Definition slice_of (c : score K) (i : nat) : mat := mkMat (rl c) (rr c) (sl c i).
Definition lmulc (M : mat) (c : score K) : score K :=
  mkScore (mr M) (rr c) (dm c) (fun i p q => sumn (mc M) (fun s => me M p s * sl c i s q)).
Definition rmulc (c : score K) (M : mat) : score K :=
  mkScore (rl c) (mc M) (dm c) (fun i p q => sumn (rr c) (fun s => sl c i p s * me M s q)).

(* a key entry (after _process_key: Ellipsis expanded, missing trailing modes filled with full slices) *)
Inductive kent :=
| KInt (i : nat)                              (* integer (already normalised to 0..size-1) *)
| KSel (g : nat -> nat) (d' : nat)            (* slice / re-indexing of one mode: new size d', source index g a *)
| KRun (P : nat) (ls : list (nat -> nat)).    (* a run of index arrays of common length P on consecutive modes *)

(* fused core of an index-array run *)
Fixpoint fuse (P : nat) (cs : net) (ls : list (nat -> nat)) : option (score K) :=
  match cs, ls with
  | [c], [l] => Some (reidx l P c)
  | c :: cs', l :: ls' =>
      match fuse P cs' ls' with
      | Some F => Some (mkScore (rl c) (rr F) P (fun a p q => sumn (rr c) (fun s => sl c (l a) p s * sl F a s q)))
      | None => None
      end
  | _, _ => None
  end.

Record st := mkSt { pend : option mat; out : net }.
Definition absorb (p : option mat) (c : score K) : score K :=
  match p with None => c | Some P => lmulc P c end.

Fixpoint run (s : st) (cs : net) (key : list kent) : option st :=
  match key with
  | [] => match cs with [] => Some s | _ => None end
  | KInt i :: key' =>
      match cs with
      | c :: cs' => run (mkSt (Some (match pend s with None => slice_of c i | Some P => mm P (slice_of c i) end)) (out s)) cs' key'
      | [] => None
      end
  | KSel g d' :: key' =>
      match cs with
      | c :: cs' => run (mkSt None (out s ++ [absorb (pend s) (reidx g d' c)])) cs' key'
      | [] => None
      end
  | KRun P ls :: key' =>
      match fuse P (firstn (length ls) cs) ls with
      | Some F => run (mkSt None (out s ++ [absorb (pend s) F])) (skipn (length ls) cs) key'
      | None => None
      end
  end.

Inductive result := RNet (cs : net) | RScalar (x : K).
Definition flush (r0 : nat) (s : st) : result :=
  match pend s with
  | None => RNet (out s)
  | Some P =>
      match rev (out s) with
      | [] => RScalar (sumn (mr P) (fun p => sumn (mc P) (fun q => me P p q)))   (* torch.sum(factors["int"]) *)
      | last :: rinit => RNet (rev rinit ++ [rmulc last P])
      end
  end.
Definition getitem (cs : net) (key : list kent) : option result :=
  match run (mkSt None []) cs key with
  | Some s => Some (flush (match cs with c :: _ => rl c | [] => 1%nat end) s)
  | None => None
  end.

(* specification side: which source index a result index denotes *)
Fixpoint merge (key : list kent) (idx' : list nat) : list nat :=
  match key with
  | [] => []
  | KInt i :: key' => i :: merge key' idx'
  | KSel g _ :: key' => match idx' with a :: idx'' => g a :: merge key' idx'' | [] => [] end
  | KRun _ ls :: key' => match idx' with a :: idx'' => map (fun l => l a) ls ++ merge key' idx'' | [] => [] end
  end.
Fixpoint nres (key : list kent) : nat :=
  match key with [] => O | KInt _ :: k => nres k | _ :: k => S (nres k) end.
Fixpoint ncons (key : list kent) : nat :=
  match key with [] => O | KRun _ ls :: k => (length ls + ncons k)%nat | _ :: k => S (ncons k) end.
End GetItem.
Arguments mkMat {K}. Arguments mr {K}. Arguments mc {K}. Arguments me {K}.
Arguments mv {K}. Arguments mm {K}. Arguments slice_of {K}. Arguments lmulc {K}. Arguments rmulc {K}.
Arguments fuse {K}.
Arguments mkSt {K}. Arguments pend {K}. Arguments out {K}. Arguments absorb {K}. Arguments run {K}.
Arguments RNet {K}. Arguments RScalar {K}. Arguments flush {K}. Arguments getitem {K}.

