(* Executable, concrete-level model of Tensor.orthogonalize(mu) with the QR answers replayed from the
   implementation (oracle replay, DESIGN 4.2): cores are 3-way arrays (rl x s x rr) stored row-major in lists,
   factors are I x s matrices.  Every call to the oracle carries the matrix the model would have passed; it is
   compared with the matrix the implementation actually passed.  Carrier: Q (Qred after every operation). *)
From TN Require Export Model.Format Model.Convert Alg.Inst.
From Coq Require Import QArith Qabs.
Local Open Scope Q_scope.

Record arr3 := mkA3 { a_d0 : nat; a_d1 : nat; a_d2 : nat; a_dat : list Q }.
Record arr2 := mkA2 { m_r : nat; m_c : nat; m_dat : list Q }.
Definition g3 (a : arr3) (i j k : nat) : Q := nth ((i * a_d1 a + j) * a_d2 a + k) (a_dat a) 0.
Definition g2 (m : arr2) (i j : nat) : Q := nth (i * m_c m + j) (m_dat m) 0.
Definition tab3 (d0 d1 d2 : nat) (f : nat -> nat -> nat -> Q) : arr3 :=
  mkA3 d0 d1 d2 (flat_map (fun i => flat_map (fun j => map (fun k => f i j k) (seq 0 d2)) (seq 0 d1)) (seq 0 d0)).
Definition tab2 (r c : nat) (f : nat -> nat -> Q) : arr2 :=
  mkA2 r c (flat_map (fun i => map (fun j => f i j) (seq 0 c)) (seq 0 r)).
Definition qsum (n : nat) (f : nat -> Q) : Q := sumn (K:=QO) n f.

(* cm_sc: magnitude of the operands whose product produced the core (its floating-point round-off in the implementation is
   proportional to it, not to the core's own entries, which may have cancelled) *)
Record cmode := mkCM { cm_core : arr3; cm_U : option arr2; cm_sc : Q }.
Record answer := mkAns { an_k : nat; an_Q : arr2; an_R : arr2; an_A : arr2 }.   (* A = argument the implementation passed *)

Definition qtolR : Q := 1 # 100000.
Definition close_q (x y : Q) : bool := Qle_bool (Qabs (x - y)) (qtolR * (1 + Qabs x)).
(* matrices are compared relative to their largest entry (the implementation's round-off scales with it; a zero matrix
   must be reproduced exactly) *)
Definition maxabs_q (l : list Q) : Q := fold_right (fun x acc => if Qle_bool acc (Qabs x) then Qabs x else acc) 0 l.
Definition arr2_close_sc (fl : Q) (a b : arr2) : bool :=
  let sc0 := maxabs_q (m_dat b) in
  let sc := if Qle_bool sc0 fl then fl else sc0 in
  Nat.eqb (m_r a) (m_r b) && Nat.eqb (m_c a) (m_c b) &&
  forallb (fun p => Qle_bool (Qabs (fst p - snd p)) (qtolR * sc)) (combine (m_dat a) (m_dat b)) &&
  Nat.eqb (length (m_dat a)) (length (m_dat b)).
Definition arr2_close : arr2 -> arr2 -> bool := arr2_close_sc 0.
(* an array computed as a product of operands of magnitude sc carries round-off of about 1e-16 sc per accumulated term in
   the implementation; entries below nfloor * sc are compared on that absolute scale (1e-5 * 1e-8 * sc) *)
Definition nfloor : Q := 1 # 100000000.
Definition nat_q (n : nat) : Q := inject_Z (Z.of_nat n).

(* state: modes, remaining oracle answers, conjunction of the argument checks so far *)
Record st := mkSt { s_modes : list cmode; s_ans : list answer; s_ok : bool }.
Definition upd_mode (k : nat) (ms : list cmode) (m : cmode) : list cmode := upd k ms m.
Definition nth_mode (k : nat) (ms : list cmode) : cmode := nth k ms (mkCM (mkA3 0 0 0 []) None 0).

(* factor_orthogonalize(mu): Q, R = qr(U); U <- Q; core <- einsum("ijk,aj->iak", core, R) *)
Definition factor_step (mu : nat) (s : st) : st :=
  let m := nth_mode mu (s_modes s) in
  match cm_U m with
  | None => s
  | Some U =>
      match s_ans s with
      | [] => mkSt (s_modes s) [] false
      | an :: rest =>
          let c := cm_core m in
          let c' := tab3 (a_d0 c) (an_k an) (a_d2 c) (fun p a q => qsum (a_d1 c) (fun j => Qred (g2 (an_R an) a j * g3 c p j q))) in
          mkSt (upd_mode mu (s_modes s) (mkCM c' (Some (an_Q an)) (Qred (nat_q (a_d1 c) * maxabs_q (m_dat (an_R an)) * cm_sc m))))
               rest (s_ok s && arr2_close U (an_A an))
      end
  end.

(* left_orthogonalize(mu) *)
Definition left_step (mu : nat) (s0 : st) : st :=
  let s := factor_step mu s0 in
  let m := nth_mode mu (s_modes s) in let c := cm_core m in
  let nx := nth_mode (S mu) (s_modes s) in let cn := cm_core nx in
  match s_ans s with
  | [] => mkSt (s_modes s) [] false
  | an :: rest =>
      let A := tab2 (a_d0 c * a_d1 c) (a_d2 c) (fun a q => g3 c (a / a_d1 c) (a mod a_d1 c) q) in
      let c' := tab3 (a_d0 c) (a_d1 c) (an_k an) (fun p j a => g2 (an_Q an) (p * a_d1 c + j) a) in
      let cn' := tab3 (an_k an) (a_d1 cn) (a_d2 cn) (fun a j q => qsum (a_d0 cn) (fun p => Qred (g2 (an_R an) a p * g3 cn p j q))) in
      mkSt (upd_mode (S mu) (upd_mode mu (s_modes s) (mkCM c' (cm_U m) 1))
                     (mkCM cn' (cm_U nx) (Qred (nat_q (a_d0 cn) * maxabs_q (m_dat (an_R an)) * cm_sc nx)))) rest
           (s_ok s && arr2_close_sc (nfloor * cm_sc m) A (an_A an))
  end.

(* right_orthogonalize(mu): QR of right_unfolding(core)^T *)
Definition right_step (mu : nat) (s0 : st) : st :=
  let s := factor_step mu s0 in
  let m := nth_mode mu (s_modes s) in let c := cm_core m in
  let pv := nth_mode (mu - 1) (s_modes s) in let cp := cm_core pv in
  match s_ans s with
  | [] => mkSt (s_modes s) [] false
  | an :: rest =>
      let A := tab2 (a_d1 c * a_d2 c) (a_d0 c) (fun a p => g3 c p (a / a_d2 c) (a mod a_d2 c)) in
      let c' := tab3 (an_k an) (a_d1 c) (a_d2 c) (fun a j q => g2 (an_Q an) (j * a_d2 c + q) a) in
      let cp' := tab3 (a_d0 cp) (a_d1 cp) (an_k an) (fun p j a => qsum (a_d2 cp) (fun t => Qred (g3 cp p j t * g2 (an_R an) a t))) in
      mkSt (upd_mode (mu - 1) (upd_mode mu (s_modes s) (mkCM c' (cm_U m) 1))
                     (mkCM cp' (cm_U pv) (Qred (nat_q (a_d2 cp) * maxabs_q (m_dat (an_R an)) * cm_sc pv)))) rest
           (s_ok s && arr2_close_sc (nfloor * cm_sc m) A (an_A an))
  end.

Fixpoint iter_up (f : nat -> st -> st) (from n : nat) (s : st) : st :=   (* from, from+1, ..., from+n-1 *)
  match n with O => s | S n' => iter_up f (S from) n' (f from s) end.
Fixpoint iter_down (f : nat -> st -> st) (top n : nat) (s : st) : st :=   (* top, top-1, ..., top-n+1 *)
  match n with O => s | S n' => iter_down f (top - 1) n' (f top s) end.

Definition orthogonalize (mu : nat) (s : st) : st :=
  let N := length (s_modes s) in
  iter_down right_step (N - 1) (N - 1 - mu) (iter_up left_step 0 mu s).

(* back to the generic tensor type for decompression *)
Definition to_mode (m : cmode) : mode QO :=
  let c := cm_core m in
  @mkMode QO (@CTT QO (a_d0 c) (a_d1 c) (a_d2 c) (g3 c))
         (match cm_U m with None => None | Some U => Some (m_r U, m_c U, (g2 U : nat -> nat -> car QO)) end).
Definition to_tensor (ms : list cmode) : tensor QO := map to_mode ms.
