(* GENERATED on every run from the current source of /repo/tntorch by translator/py2coq.py -- never edit.
   One definition per Python function and argument-kind variant (T = compressed tensor, R = scalar).
   Kernel primitives (hand-modelled, tied by correspondence) are the Section variables. *)
From Coq Require Import Reals List.
Import ListNotations.
Open Scope R_scope.
Section Gen.
Variable tensor : Type.
Variable t_dot : tensor -> tensor -> R.
Variables t_add t_mul : tensor -> tensor -> tensor.
Variables t_smul t_sadd : R -> tensor -> tensor.
Variables t_mean t_numel t_sum : tensor -> R.
Variable marg : Type.
Variable t_sobol : tensor -> tensor -> marg -> R.
Variable t_weight : nat -> tensor.
Variable t_mask : tensor -> tensor -> tensor.
Variable t_dim : tensor -> nat.
Variable tseq : Type.
Variable s_nth : tseq -> nat -> tensor.
Variable s_len : tseq -> nat.
Variables bnds bnd : Type.
Variable b_at : bnds -> nat -> bnd.
Variable t_partial : tensor -> nat -> nat -> bnd -> tensor.
Variable t_pysum : list tensor -> tensor.
Variable b_default : tensor -> nat -> bnd.
Variable t_hsum : list tensor -> R.

Definition gen_tensor_rmul_TR (self : tensor) (other : R) : tensor :=
  (t_smul other self).
Definition gen_tensor_neg_T (self : tensor) : tensor :=
  (gen_tensor_rmul_TR self (- (IZR (1)))).
Definition gen_tensor_radd_TR (self : tensor) (other : R) : tensor :=
  (t_sadd other self).
Definition gen_tensor_sub_TT (self : tensor) (other : tensor) : tensor :=
  (t_add self (gen_tensor_rmul_TR other (- (IZR (1))))).
Definition gen_tensor_sub_TR (self : tensor) (other : R) : tensor :=
  (t_sadd ((- (IZR (1))) * other) self).
Definition gen_tensor_rsub_TR (self : tensor) (other : R) : tensor :=
  (t_sadd other (gen_tensor_rmul_TR self (- (IZR (1))))).
Definition gen_tensor_truediv_TR (self : tensor) (other : R) : tensor :=
  (t_smul ((IZR (1)) / other) self).
Definition gen_tensor_invert_T (self : tensor) : tensor :=
  (gen_tensor_rsub_TR self (IZR (1))).
Definition gen_tensor_and_TT (self : tensor) (other : tensor) : tensor :=
  (t_mul self other).
Definition gen_tensor_or_TT (self : tensor) (other : tensor) : tensor :=
  (gen_tensor_sub_TT (t_add self other) (t_mul self other)).
Definition gen_tensor_xor_TT (self : tensor) (other : tensor) : tensor :=
  (gen_tensor_sub_TT (t_add self other) (t_mul (gen_tensor_rmul_TR self (IZR (2))) other)).
Definition gen_metrics_normsq (t : tensor) : R :=
  (t_dot t t).
Definition gen_metrics_norm (t : tensor) : R :=
  (sqrt (Rmax 0 (gen_metrics_normsq t))).
Definition gen_metrics_dist (t1 : tensor) (t2 : tensor) : R :=
  (sqrt (Rmax 0 (((t_dot t1 t1) + (t_dot t2 t2)) - ((IZR (2)) * (t_dot t1 t2))))).
Definition gen_metrics_relative_error (gt : tensor) (approx : tensor) : R :=
  ((sqrt (Rmax 0 (((t_dot gt gt) + (t_dot approx approx)) - ((IZR (2)) * (t_dot gt approx))))) / (sqrt (Rmax 0 (t_dot gt gt)))).
Definition gen_metrics_rmse (gt : tensor) (approx : tensor) : R :=
  ((gen_metrics_dist gt approx) / (sqrt (t_numel gt))).
Definition gen_metrics_r_squared (gt : tensor) (approx : tensor) : R :=
  ((IZR (1)) - (((gen_metrics_dist gt approx) * (gen_metrics_dist gt approx)) / (gen_metrics_normsq (gen_tensor_sub_TR gt (t_mean gt))))).
Definition gen_metrics_var (t : tensor) : R :=
  ((gen_metrics_normsq (gen_tensor_sub_TR t (t_mean t))) / (t_numel t)).
Definition gen_metrics_std (t : tensor) : R :=
  (sqrt (gen_metrics_var t)).
Definition gen_metrics_raw_moment (t : tensor) (k : nat) : R :=
  ((t_hsum (repeat t k)) / (t_numel t)).
Definition gen_metrics_normalized_moment (t : tensor) (k : nat) : R :=
  ((gen_metrics_raw_moment (gen_tensor_sub_TR t (t_mean t)) k) / (Rpower (gen_metrics_var t) ((INR k) / (IZR (2))))).
Definition gen_logic_is_tautology (t : tensor) : Prop :=
  ((gen_metrics_norm (gen_tensor_invert_T t)) <= (IZR (1) / IZR (1000000))).
Definition gen_logic_is_contradiction (t : tensor) : Prop :=
  ((gen_metrics_norm t) <= (IZR (1) / IZR (1000000))).
Definition gen_logic_is_satisfiable (t : tensor) : Prop :=
  ((t_sum t) >= (IZR (1) / IZR (1000000))).
Definition gen_logic_implies (t1 : tensor) (t2 : tensor) : Prop :=
  (gen_logic_is_contradiction (gen_tensor_and_TT t1 (gen_tensor_invert_T t2))).
Definition gen_logic_equiv (t1 : tensor) (t2 : tensor) : Prop :=
  ((gen_logic_implies t1 t2) /\ (gen_logic_implies t2 t1)).
Definition gen_anova_mean_dimension_N (t : tensor) (marginals : marg) : R :=
  (t_sobol t (t_weight (t_dim t)) marginals).
Definition gen_anova_mean_dimension_M (t : tensor) (mask : tensor) (marginals : marg) : R :=
  ((t_sobol t (t_mask (t_weight (t_dim t)) mask) marginals) / (t_sobol t mask marginals)).
Definition gen_derivatives_divergence_P (ts : tseq) (bounds : bnds) : tensor :=
  (t_pysum (map (fun n : nat => (t_partial (s_nth ts n) n 1%nat (b_at bounds n))) (seq 0 (s_len ts)))).
Definition gen_derivatives_curl_P (ts : tseq) (bounds : bnds) : list tensor :=
  [(gen_tensor_sub_TT (t_partial (s_nth ts 2%nat) 1%nat 1%nat (b_at bounds 1%nat)) (t_partial (s_nth ts 1%nat) 2%nat 1%nat (b_at bounds 2%nat))); (gen_tensor_sub_TT (t_partial (s_nth ts 0%nat) 2%nat 1%nat (b_at bounds 2%nat)) (t_partial (s_nth ts 2%nat) 0%nat 1%nat (b_at bounds 0%nat))); (gen_tensor_sub_TT (t_partial (s_nth ts 1%nat) 0%nat 1%nat (b_at bounds 0%nat)) (t_partial (s_nth ts 0%nat) 1%nat 1%nat (b_at bounds 1%nat)))].
Definition gen_derivatives_laplacian_P (t : tensor) (bounds : bnds) : tensor :=
  (t_pysum (map (fun n : nat => (t_partial t n 2%nat (b_at bounds n))) (seq 0 (t_dim t)))).
Definition gen_derivatives_gradient_N (t : tensor) (dim : list nat) : list tensor :=
  (map (fun d_b : nat * bnd => (t_partial t (fst d_b) 1%nat (snd d_b))) (combine dim (map (fun d : nat => (b_default t d)) dim))).
Definition gen_derivatives_gradient_B (t : tensor) (dim : list nat) (bounds : list bnd) : list tensor :=
  (map (fun d_b : nat * bnd => (t_partial t (fst d_b) 1%nat (snd d_b))) (combine dim bounds)).
End Gen.
