(* Algebra behind tolerance-driven recompression (C04, C05), over any commutative ring:
   - a sweep step that replaces (prev, core) by (prev x L, R) with core = L . R slice-wise leaves the tensor unchanged;
   - for U with orthonormal columns, || M - U U^T M ||^2 = || M ||^2 - || U^T M ||^2  (the error of a step is the
     energy that was discarded, and it is orthogonal to what is kept). *)
From TN Require Export Sem.Moves.
Section RoundAlg.
Variable K : Ops.
Hypothesis Kth : laws K.
Add Ring Kring : Kth.
Local Open Scope K_scope.

Theorem exact_step (prev c c' : score K) (L : nat -> nat -> K) rest i j idx v p :
  rr prev = rl c -> rr c' = rr c ->
  (forall s q, (s < rl c)%nat -> (q < rr c)%nat -> sl c j s q = sumn (rl c') (fun a => L s a * sl c' j a q)) ->
  evalv (rmulM prev L (rl c') :: c' :: rest) (i :: j :: idx) v p = evalv (prev :: c :: rest) (i :: j :: idx) v p.
Proof.
  intros H1 H2 Hf. rewrite (L4_head K Kth prev c' L rest i j idx v p).
  cbn [evalv]. rewrite H1. apply sumn_ext. intros s Hs. f_equal. cbn [lmulM rr sl rl]. rewrite H2.
  apply sumn_ext. intros q Hq. f_equal. symmetry. apply Hf; assumption.
Qed.

Definition sq (x : K) := x * x.
Definition proj (m r : nat) (U M : nat -> nat -> K) : nat -> nat -> K :=       (* W = U^T M : r x n *)
  fun k j => sumn m (fun l => U l k * M l j).
Definition back (r : nat) (U W : nat -> nat -> K) : nat -> nat -> K :=          (* U W : m x n *)
  fun i j => sumn r (fun k => U i k * W k j).

Theorem projection_error (m n r : nat) (U M : nat -> nat -> K) :
  (forall k k', (k < r)%nat -> (k' < r)%nat -> sumn m (fun i => U i k * U i k') = delta k k') ->
  sumn m (fun i => sumn n (fun j => sq (M i j - back r U (proj m r U M) i j))) =
  sumn m (fun i => sumn n (fun j => sq (M i j))) - sumn r (fun k => sumn n (fun j => sq (proj m r U M k j))).
Proof.
  intros Ho. set (W := proj m r U M).
  (* cross term: sum_ij M_ij (U W)_ij = sum_kj W_kj^2 *)
  assert (Hc: sumn m (fun i => sumn n (fun j => M i j * back r U W i j)) = sumn r (fun k => sumn n (fun j => sq (W k j)))).
  { unfold back.
    rewrite (sumn_ext m _ (fun i => sumn r (fun k => sumn n (fun j => U i k * M i j * W k j)))).
    2:{ intros i _. rewrite (sumn_exch Kth r n). apply sumn_ext. intros j _.
        rewrite <- (sumn_mul_l Kth). apply sumn_ext; intros; ring. }
    rewrite (sumn_exch Kth m r). apply sumn_ext. intros k _. rewrite (sumn_exch Kth m n).
    apply sumn_ext. intros j _. unfold sq. fold (W k j).
    rewrite (sumn_mul_r Kth). reflexivity. }
  (* square term: sum_ij (U W)_ij^2 = sum_kj W_kj^2 *)
  assert (Hs: sumn m (fun i => sumn n (fun j => sq (back r U W i j))) = sumn r (fun k => sumn n (fun j => sq (W k j)))).
  { unfold back, sq.
    rewrite (sumn_ext m _ (fun i => sumn n (fun j => sumn r (fun k => sumn r (fun k' => (U i k * U i k') * (W k j * W k' j)))))).
    2:{ intros i _. apply sumn_ext. intros j _. rewrite <- (sumn_sumn_mul Kth). apply sumn_ext. intros k _.
        apply sumn_ext. intros k' _. ring. }
    rewrite (sumn_exch Kth m n).
    rewrite (sumn_ext n _ (fun j => sumn r (fun k => sumn r (fun k' => delta k k' * (W k j * W k' j))))).
    2:{ intros j _. rewrite (sumn_exch Kth m r). apply sumn_ext. intros k Hk. rewrite (sumn_exch Kth m r).
        apply sumn_ext. intros k' Hk'. rewrite (sumn_mul_r Kth). rewrite Ho by assumption. reflexivity. }
    rewrite (sumn_exch Kth n r). apply sumn_ext. intros k Hk. apply sumn_ext. intros j _.
    rewrite (sumn_delta Kth) by exact Hk. reflexivity. }
  rewrite (sumn_ext m _ (fun i => sumn n (fun j => sq (M i j)) - (sumn n (fun j => M i j * back r U W i j) + sumn n (fun j => M i j * back r U W i j)) + sumn n (fun j => sq (back r U W i j)))).
  2:{ intros i _. rewrite <- (sumn_add Kth), <- (sumn_sub Kth), <- (sumn_add Kth). apply sumn_ext. intros j _. unfold sq. ring. }
  rewrite (sumn_add Kth), (sumn_sub Kth), (sumn_add Kth), Hc, Hs. ring.
Qed.

(* left_ortho=False: left = U diag(s), right = diag(sinv) U^T M; their product is U U^T M provided every kept direction
   has s_k sinv_k = 1 or is a null direction (row k of U^T M vanishes, where the code puts sinv_k = 0). *)
Theorem scaled_product (r : nat) (U W : nat -> nat -> K) (s sinv : nat -> K) i j :
  (forall k, (k < r)%nat -> s k * sinv k = 1 \/ W k j = 0) ->
  sumn r (fun k => (U i k * s k) * (sinv k * W k j)) = back r U W i j.
Proof.
  intros H. unfold back. apply sumn_ext. intros k Hk. destruct (H k Hk) as [E|E].
  - transitivity (U i k * (s k * sinv k) * W k j); [ring|]. rewrite E. ring.
  - rewrite E. ring.
Qed.
End RoundAlg.
