"""C16: weight automata accept exactly the strings they describe; accepted_inputs lists them in order.

ops:  weight_mask(N, weight, nsymbols)      value 1 iff sum of the symbol values is one of the requested weights
      weight(N, nsymbols)                   value = sum of the symbol values
      weight_one_hot(N, r, nsymbols)        open last bond k: 1 iff sum == k (k < r)
      accepted_inputs(t)                    every index of a non-negative integer-valued TT tensor, repeated t[idx]
                                            times, in lexicographic order
The specification is brute force over all strings / all indices (pure Python + lib.dense_np); no tntorch.
"""
from lib import *

torch.set_num_threads(1)


# --------------------------------------------------------------------------- small TT algebra on numpy cores (generator side)

def tt_json(cores):
    return {"modes": [{"kind": "tt", "core": np.asarray(c).tolist(), "U": None} for c in cores]}


def tt_add(A, B, sb=1):
    N = len(A)
    out = []
    for n, (a, b) in enumerate(zip(A, B)):
        a = np.asarray(a, dtype=float); b = np.asarray(b, dtype=float)
        if N == 1:
            out.append(a + sb * b)
            continue
        if n == 0:
            out.append(np.concatenate([a, sb * b], axis=2))
        elif n == N - 1:
            out.append(np.concatenate([a, b], axis=0))
        else:
            c = np.zeros((a.shape[0] + b.shape[0], a.shape[1], a.shape[2] + b.shape[2]))
            c[:a.shape[0], :, :a.shape[2]] = a
            c[a.shape[0]:, :, a.shape[2]:] = b
            out.append(c)
    return out


def tt_mul(A, B):
    out = []
    for a, b in zip(A, B):
        a = np.asarray(a, dtype=float); b = np.asarray(b, dtype=float)
        out.append(np.einsum("isj,ksl->iksjl", a, b).reshape(a.shape[0] * b.shape[0], a.shape[1], a.shape[2] * b.shape[2]))
    return out


def rank1_mask(rng, shape, p=0.6):
    cores = []
    for s in shape:
        v = [1.0 if rng.random() < p else 0.0 for _ in range(s)]
        if not any(v):
            v[rng.randrange(s)] = 1.0
        cores.append(np.array(v).reshape(1, s, 1))
    return cores


def ones_tt(shape):
    return [np.ones((1, s, 1)) for s in shape]


def own_weight_mask(shape, w):
    """TT cores of [sum(x) == w], written independently of tntorch (state = running sum, capped at w+1)"""
    r = w + 2
    cores = []
    for s in shape:
        c = np.zeros((r, s, r))
        for i in range(r):
            for x in range(s):
                c[i, x, min(i + x, r - 1)] = 1.0
        cores.append(c)
    cores[0] = cores[0][0:1]
    cores[-1] = cores[-1][:, :, w:w + 1]
    return cores


GAUGES_DYADIC = [np.array([[2.0, 0.0], [0.0, 0.5]]), np.array([[1.0, 0.5], [0.0, 1.0]]), np.array([[1.0, 1.0], [1.0, 2.0]]),
                 np.array([[0.0, 1.0], [-1.0, 3.0]])]
GAUGES_NOISY = [np.array([[3.0, 1.0], [1.0, 2.0]]), np.array([[1.0, 3.0], [-2.0, 1.0]]), np.array([[0.3, 0.7], [0.9, -0.1]])]


def regauge(rng, cores, gauges):
    """insert G G^-1 on every bond (block-diagonal with identity when the bond is larger than 2)"""
    cores = [np.array(c, dtype=float) for c in cores]
    for n in range(len(cores) - 1):
        R = cores[n].shape[2]
        G = np.eye(R)
        if R >= 2:
            i = rng.randrange(R - 1)
            G[i:i + 2, i:i + 2] = gauges[rng.randrange(len(gauges))]
        elif gauges is GAUGES_NOISY:
            G = G * 3.0
        else:
            G = G * 4.0
        Gi = np.linalg.inv(G)
        cores[n] = np.einsum("isj,jk->isk", cores[n], G)
        cores[n + 1] = np.einsum("ij,jsk->isk", Gi, cores[n + 1])
    return cores


# --------------------------------------------------------------------------- specification helpers

def alphabet(N, nsymbols):
    if nsymbols is None:
        return [2] * N
    if isinstance(nsymbols, int):
        return [nsymbols] * N
    return list(nsymbols)


def open_bond_dense(tj):
    """dense array of an explicit tensor whose last bond is left open: shape = modes + [r]"""
    mats = []
    for m in tj["modes"]:
        c = np.array(m["core"], dtype=np.float64)
        if m["kind"] == "cp":
            s, R = c.shape
            g = np.zeros((R, s, R))
            for k in range(R):
                g[k, :, k] = c[:, k]
            c = g
        if m["U"] is not None:
            c = np.einsum("pjq,ij->piq", c, np.array(m["U"], dtype=np.float64))
        mats.append(c)
    cur = np.ones((1, mats[0].shape[0]))
    shape = []
    for c in mats:
        shape.append(c.shape[1])
        cur = np.einsum("ap,piq->aiq", cur, c).reshape(-1, c.shape[2])
    return cur.reshape(shape + [mats[-1].shape[2]])


class Prop:
    ID = "C16"
    LEVEL = "proof"
    COQ_HEADER = "From TN Require Import Harness.H_C16.\nOpen Scope Z_scope.\n"
    CHECK_FN = "check"
    RULE = ("weight_mask: every N in 1..6 x uniform alphabet 2..4 x every single weight 0..max+1 (max = largest possible sum), "
            "default alphabet, seeded weight sets (list/tuple/ndarray, unsorted, including weights 0, N, > N and > max) and "
            "seeded per-position alphabets; weight: every N in 1..6 x alphabet 2..4 (+ default, + per-position); "
            "weight_one_hot: the same grid x r in {default, 1, 2, N+1, max+1, max+2}, observed on the open last bond; "
            "all compared with the brute-force table over all strings. accepted_inputs: explicit TT tensors with "
            "non-negative integer values (random 0/1 cores, sums/products of rank-1 masks and of an independently written "
            "weight automaton, entries with multiplicity up to 12, negative core entries, exact and inexact gauge changes "
            "on the bonds, zero tensors, size-1 modes, N in 1..6) compared with the lexicographic enumeration with "
            "multiplicity of the NumPy-decompressed tensor; the same for tensors with CP cores and Tucker factors; weight lists "
            "that repeat a weight, and lists containing a negative weight (must raise). Non-trivial: the automaton accepts some but not all strings "
            "/ the list has at least two rows; distinct = distinct arguments (tensors by content).")
    TRUSTED = ["harness/props/c16.py: brute-force tables over all strings; lib.dense_np decompression of explicit tensors",
               "tn.Tensor.torch() decompression (property C01) is used to observe weight_mask and weight; "
               "weight_one_hot is observed by contracting its cores in NumPy with the last bond left open"]
    ASSUMPTIONS = ["weight lists may repeat a weight (it must count once); a negative weight anywhere in the list must be rejected",
                   "accepted_inputs inputs are unbatched; CP / Tucker inputs are compared with the enumeration only (the Coq "
                   "model and C16_accepted cover plain TT networks, which the implementation converts to first)",
                   "tables are exhaustive only up to N = 6 and alphabet size 4"]
    THEOREMS = ["C16_one_hot", "C16_mask", "C16_mask_01", "C16_mask_accepts_exactly", "C16_weight", "C16_accepted"]

    # ---------------------------------------------------------------- generation
    def generate(self, rng, tier):
        quick = tier == "quick"
        cases = []

        def nstag(ns):
            return "default" if ns is None else ("uniform%d" % ns if isinstance(ns, int) else "per-position")

        def mask(N, w, ns, wkind):
            al = alphabet(N, ns)
            mx = sum(a - 1 for a in al)
            ws = [w] if isinstance(w, int) else list(w)
            cases.append({"op": "weight_mask", "N": N, "weight": w, "wkind": wkind, "nsymbols": ns,
                          "tags": {"op": "weight_mask", "N": N, "nsym": nstag(ns), "wkind": wkind, "nweights": len(ws),
                                   "repeated_weight": len(set(ws)) < len(ws),
                                   "w_gt_N": bool(max(ws) > N), "w_gt_max": bool(max(ws) > mx), "w_zero": bool(0 in ws)}})

        # ---- weight_mask, single weights: the full grid
        for N in range(1, 7):
            for ns in (2, 3, 4):
                for w in range(0, N * (ns - 1) + 2):
                    mask(N, w, ns, "int")
            for w in range(0, N + 2):
                mask(N, w, None, "int")
        # ---- weight sets
        for N in range(1, 7):
            for ns in (2, 3, 4):
                mx = N * (ns - 1)
                sets = [[0, N], list(range(mx + 1)), [mx, 0]]
                for _ in range(5 if quick else 30):
                    k = rng.randint(2, 4)
                    sets.append(rng.sample(range(mx + 3), min(k, mx + 3)))
                for ws in sets:
                    ws = list(dict.fromkeys(ws))
                    mask(N, ws, ns, rng.choice(["list", "tuple", "ndarray"]))
            mask(N, [N, 0], None, "list")
            # a weight listed twice counts once; a negative weight anywhere is rejected
            for ns in (2, 3):
                mx = N * (ns - 1)
                a = rng.randint(0, mx); b = rng.randint(0, mx)
                mask(N, [a, a], ns, rng.choice(["list", "ndarray"]))
                mask(N, [a, b, a, b], ns, "list")
                cases.append({"op": "weight_mask", "N": N, "weight": rng.choice([[a, -1], [-1, a], [a, b, -2]]), "wkind": "list",
                              "nsymbols": ns, "must_raise": True,
                              "tags": {"op": "weight_mask", "N": N, "nsym": nstag(ns), "wkind": "list", "negative_weight": True}})
        # ---- per-position alphabets
        for _ in range(250 if quick else 2000):
            N = rng.randint(1, 6)
            ns = [rng.choice([2, 3, 4]) for _ in range(N)]
            mx = sum(a - 1 for a in ns)
            if rng.random() < 0.6:
                mask(N, rng.randint(0, mx + 1), ns, "int")
            else:
                mask(N, rng.sample(range(mx + 2), min(rng.randint(1, 4), mx + 2)), ns, rng.choice(["list", "tuple", "ndarray"]))

        # ---- weight
        def weight(N, ns):
            cases.append({"op": "weight", "N": N, "nsymbols": ns, "tags": {"op": "weight", "N": N, "nsym": nstag(ns)}})

        for N in range(1, 7):
            for ns in (None, 2, 3, 4):
                weight(N, ns)
        for _ in range(6 if quick else 30):
            N = rng.randint(1, 5)
            weight(N, [rng.choice([2, 3, 4]) for _ in range(N)])

        # ---- weight_one_hot
        def one_hot(N, r, ns):
            cases.append({"op": "weight_one_hot", "N": N, "r": r, "nsymbols": ns,
                          "tags": {"op": "weight_one_hot", "N": N, "nsym": nstag(ns), "r": "default" if r is None else
                                   ("N+1" if r == N + 1 else ("small" if r <= 2 else "large"))}})

        for N in range(1, 7):
            for ns in (None, 2, 3, 4):
                mx = N * ((ns or 2) - 1)
                for r in sorted(set([1, 2, N + 1, mx + 1, mx + 2])) + [None]:
                    if quick and N >= 5 and r is not None and r > N + 1 and ns == 4 and rng.random() < 0.5:
                        continue
                    one_hot(N, r, ns)
        for _ in range(60 if quick else 500):
            N = rng.randint(1, 5)
            ns = [rng.choice([2, 3, 4]) for _ in range(N)]
            one_hot(N, rng.choice([None, 1, 2, N + 1, sum(a - 1 for a in ns) + 1, rng.randint(1, 8)]), ns)

        # ---- accepted_inputs
        def acc(cores, kind):
            return acc_json(tt_json(cores), kind)

        def acc_json(tj, kind):
            cores = [m["core"] if m["kind"] == "tt" else [m["core"]] for m in tj["modes"]]
            d = dense_np(tj)
            k = np.rint(d)
            if np.max(np.abs(d - k)) > 1e-9 or k.min() < 0 or k.sum() > 4000:
                return False
            cases.append({"op": "accepted_inputs", "t": tj,
                          "tags": {"op": "accepted_inputs", "N": len(cores), "fmt": tsig(tj), "kind": kind,
                                   "maxval": int(min(k.max(), 13)), "rows": int(k.sum()) if k.sum() < 3 else (
                                       "3-20" if k.sum() <= 20 else "21+"),
                                   "size1": bool(1 in d.shape), "last_nonzero_multi": bool(
                                       np.any(k.reshape(-1, d.shape[-1])[:, 1:] >= 2)) if d.shape[-1] > 1 else False,
                                   "maxrank": int(max(np.asarray(c).shape[-1] for c in cores))}})
            return True

        def rshape(N):
            return [rng.choice([1, 2, 2, 3, 3, 4] if N <= 4 else [1, 2, 2, 3]) for _ in range(N)]

        def rand01(N, shape, maxr=3, hi=1):
            r = [1] + [rng.randint(1, maxr) for _ in range(N - 1)] + [1]
            return [np.array(rint(rng, (r[n], shape[n], r[n + 1]), 0, hi), dtype=float) for n in range(N)]

        def masksum(N, shape, k):
            t = rank1_mask(rng, shape)
            for _ in range(k - 1):
                t = tt_add(t, rank1_mask(rng, shape))
            return t

        n_acc = 900 if quick else 8000
        made = 0; tries = 0
        while made < n_acc and tries < 20 * n_acc:
            tries += 1
            N = rng.choice([1, 2, 2, 3, 3, 4, 4, 5, 6])
            shape = rshape(N)
            kind = rng.choice(["rand01", "rand01", "rand02", "masksum", "masksum", "product", "automaton", "negcore", "scaled",
                               "gauge-dyadic", "gauge-noisy", "zero", "lastonly"])
            if kind == "rand01":
                cores = rand01(N, shape)
            elif kind == "rand02":
                cores = rand01(N, shape, maxr=2, hi=2)
            elif kind == "masksum":
                cores = masksum(N, shape, rng.randint(1, 4))
            elif kind == "product":
                cores = tt_mul(masksum(N, shape, rng.randint(1, 3)), masksum(N, shape, rng.randint(1, 2)))
            elif kind == "automaton":   # overlapping weight masks (values 0..2) and masked automata
                mx = sum(s - 1 for s in shape)
                cores = own_weight_mask(shape, rng.randint(0, mx))
                if rng.random() < 0.6:
                    cores = tt_add(cores, own_weight_mask(shape, rng.randint(0, mx)))
                if rng.random() < 0.5:
                    cores = tt_mul(cores, masksum(N, shape, rng.randint(1, 2)))
            elif kind == "negcore":     # a * (k - b): non-negative values, negative core entries
                k = rng.randint(1, 3)
                b = masksum(N, shape, k)
                kk = [c.copy() for c in ones_tt(shape)]
                kk[0] = kk[0] * k
                cores = tt_mul(masksum(N, shape, rng.randint(1, 2)), tt_add(kk, b, -1))
            elif kind == "scaled":
                cores = masksum(N, shape, rng.randint(1, 2))
                n = rng.randrange(N)
                cores[n] = cores[n] * rng.choice([2, 3, 5, 12])
            elif kind in ("gauge-dyadic", "gauge-noisy"):
                base = rng.choice([rand01(N, shape, maxr=3), masksum(N, shape, rng.randint(2, 3))])
                cores = regauge(rng, base, GAUGES_DYADIC if kind == "gauge-dyadic" else GAUGES_NOISY)
            elif kind == "zero":
                cores = rand01(N, shape)
                n = rng.randrange(N)
                cores[n] = cores[n] * 0
            else:                       # only entries with the last index at its maximum are non-zero
                cores = masksum(N, shape, rng.randint(1, 3))
                cores[-1][:, :-1, :] = 0
            if acc(cores, kind):
                made += 1
        # other formats (CP cores, Tucker factors): the listing is defined on the tensor's own indices
        made = 0; tries = 0
        while made < (150 if quick else 1500) and tries < 20000:
            tries += 1
            N = rng.choice([1, 2, 2, 3, 3, 4])
            kinds = [rng.choice(KINDS) for _ in range(N)]
            if all(k == ("tt", False) for k in kinds):
                continue
            tj = rand_tensor_json(rng, rshape(N), kinds=kinds, maxr=2, lo=rng.choice([0, 0, -1]), hi=rng.choice([1, 1, 2]))
            if acc_json(tj, "formats"):
                made += 1
        # exhaustive tiny space: all 0/1 tensors of shape (2,) and (2,2) as rank-1/2 TT, all value patterns 0..2 of shape (2,2)
        for vals in itertools.product((0, 1, 2), repeat=4):
            a = np.array(vals, dtype=float).reshape(2, 2)
            acc([np.eye(2).reshape(1, 2, 2), a.reshape(2, 2, 1)], "enum2x2")
        for vals in itertools.product((0, 1, 3), repeat=3):
            acc([np.array(vals, dtype=float).reshape(1, 3, 1)], "enum3")
        return cases

    # ---------------------------------------------------------------- implementation
    def run(self, case):
        try:
            op = case["op"]
            if op == "accepted_inputs":
                X = tn.accepted_inputs(to_tn(case["t"]))
                return {"ok": True, "shape": list(X.shape), "rows": [[int(v) for v in row] for row in X.tolist()],
                        "integer": not X.dtype.is_floating_point}
            N = case["N"]
            ns = case["nsymbols"]
            kw = {} if ns is None else {"nsymbols": ns}
            if op == "weight_mask":
                w = case["weight"]
                w = {"int": lambda: int(w), "list": lambda: list(w), "tuple": lambda: tuple(w),
                     "ndarray": lambda: np.array(w)}[case["wkind"]]()
                t = tn.weight_mask(N, w, **kw)
            elif op == "weight":
                t = tn.weight(N, **kw)
            elif op == "weight_one_hot":
                t = tn.weight_one_hot(N, case["r"], **kw) if case["r"] is not None else tn.weight_one_hot(N, **kw)
                d = open_bond_dense(from_tn(t))
                return {"ok": True, "shape": list(d.shape), "dense": d.reshape(-1).tolist()}
            else:
                raise ValueError(op)
            d = t.torch().detach().double()
            return {"ok": True, "shape": list(d.shape), "dense": d.reshape(-1).tolist()}
        except Exception as e:
            return {"ok": False, "err": type(e).__name__, "msg": str(e)[:200]}

    # ---------------------------------------------------------------- specification
    def expected(self, case):
        op = case["op"]
        if op == "accepted_inputs":
            d = dense_np(case["t"])
            k = np.rint(d).astype(int)
            rows = []
            for idx in itertools.product(*[range(s) for s in d.shape]):   # lexicographic order
                rows += [list(idx)] * int(k[idx])
            return {"ok": True, "shape": [len(rows), d.ndim], "rows": rows}
        N = case["N"]
        al = alphabet(N, case["nsymbols"])
        strings = list(itertools.product(*[range(a) for a in al]))
        if op == "weight_mask":
            ws = [case["weight"]] if isinstance(case["weight"], int) else list(case["weight"])
            return {"ok": True, "shape": al, "dense": [1 if sum(x) in ws else 0 for x in strings]}
        if op == "weight":
            return {"ok": True, "shape": al, "dense": [sum(x) for x in strings]}
        if op == "weight_one_hot":
            # default: one position per reachable sum (the one-hot automaton "marks exactly that sum" for every string)
            r = sum(a - 1 for a in al) + 1 if case["r"] is None else case["r"]
            return {"ok": True, "shape": al + [r], "dense": [1 if sum(x) == k else 0 for x in strings for k in range(r)]}
        raise ValueError(op)

    def agree(self, case, res, exp):
        if case.get("must_raise"):
            return (not res.get("ok")), "a negative weight was accepted"
        if not res.get("ok"):
            return False, "implementation raised %s: %s" % (res.get("err"), res.get("msg"))
        if res["shape"] != exp["shape"]:
            return False, "shape %s, expected %s" % (res["shape"], exp["shape"])
        if case["op"] == "accepted_inputs":
            if not res["integer"]:
                return False, "accepted_inputs returned a floating-point matrix"
            if res["rows"] != exp["rows"]:
                k = next((i for i, (a, b) in enumerate(zip(res["rows"], exp["rows"])) if a != b), min(len(res["rows"]), len(exp["rows"])))
                return False, "row %d is %s, expected %s (lexicographic order with multiplicity)" % (
                    k, res["rows"][k] if k < len(res["rows"]) else None, exp["rows"][k] if k < len(exp["rows"]) else None)
            return True, ""
        got = canon_dense(res["dense"])
        if got != exp["dense"]:
            if got is None:
                return False, "non-integer or non-finite entries"
            k = next(i for i, (a, b) in enumerate(zip(got, exp["dense"])) if a != b)
            idx = np.unravel_index(k, exp["shape"])
            return False, "entry %s is %s, expected %s" % (list(int(i) for i in idx), got[k], exp["dense"][k])
        return True, ""

    def nontrivial(self, case, res):
        if not res.get("ok"):
            return False
        if case["op"] == "accepted_inputs":
            return len(res["rows"]) >= 2
        return len(set(res["dense"])) >= 2

    def signature(self, case):
        return hashlib.sha1(json.dumps({k: v for k, v in case.items() if k != "tags"}, sort_keys=True).encode()).hexdigest()

    def coq_term(self, case, res):
        if not res.get("ok"):
            return None
        op = case["op"]
        nl = lambda xs: coq_natlist(xs)
        rows = lambda rr: "[" + "; ".join(nl(r) for r in rr) + "]"
        if op == "accepted_inputs":
            tj = case["t"]
            ints = all(float(v).is_integer() for m in tj["modes"] for v in flat(m["core"])) and \
                all(m["U"] is None and m["kind"] == "tt" for m in tj["modes"])
            if not ints or len(res["rows"]) > 2000:
                return None
            return "mkCase (OAccepted %s) [] %s" % (coq_tensor(tj), rows(res["rows"]))
        N = case["N"]
        al = alphabet(N, case["nsymbols"])
        dense = canon_dense(res["dense"])
        if dense is None:
            dense = [10 ** 9]
        if op == "weight_mask":
            w = case["weight"]
            w = [int(w)] if not isinstance(w, (list, tuple)) else [int(x) for x in w]
            return "mkCase (OMask %s %s) %s []" % (nl(w), nl(al), coq_list(dense))
        if op == "weight":
            return "mkCase (OWeight %s) %s []" % (nl(al), coq_list(dense))
        if op == "weight_one_hot":
            r = case["r"] if case["r"] is not None else sum(a - 1 for a in al) + 1
            return "mkCase (OOneHot %d %s) %s []" % (r, nl(al), coq_list(dense))
        return None
