(* Norms and inner products of tensor networks in mixed orthonormal gauge (the analysis behind round_tt / TT-SVD):
   - [sandwich_norm]: left-orthonormal prefix, arbitrary core, right-orthonormal suffix => |T|^2 = |core|_F^2;
   - [core_difference]: replacing one core changes the tensor by the network holding the difference of the cores;
   - [orthogonal_steps]: two networks that share a right-orthonormal suffix and whose cores in front of it are
     row-orthogonal (E R^T = 0, as for a truncation error against the retained rows) are orthogonal tensors, whatever
     their prefixes;
   - [pythagoras]: pairwise orthogonal differences add up in squares.
   Any commutative ring. *)
From TN Require Export Proofs.OrthoP.
Section Sandwich.
Variable K : Ops.
Hypothesis Kth : laws K.
Add Ring Kring : Kth.
Local Open Scope K_scope.
Notation net := (list (score K)).

Lemma sumidx_ext_range ds : forall (f g : list nat -> K), (forall idx, in_range ds idx = true -> f idx = g idx) ->
  sumidx ds f = sumidx ds g.
Proof.
  induction ds as [|d ds IH]; intros f g H; cbn [sumidx]; [apply H; reflexivity|].
  apply sumn_ext. intros i Hi. apply IH. intros idx Hr. apply H. cbn [in_range].
  apply Nat.ltb_lt in Hi. rewrite Hi, Hr. reflexivity.
Qed.

Definition gram2 (X Y : net) (p p' : nat) : K :=
  sumidx (sshape X) (fun idx => evalv X idx ones p * evalv Y idx ones p').

Lemma gram2_cons (a b : score K) (X Y : net) p p' : dm a = dm b ->
  gram2 (a :: X) (b :: Y) p p' =
  sumn (dm a) (fun i => sumn (rr a) (fun q => sumn (rr b) (fun q' => sl a i p q * sl b i p' q' * gram2 X Y q q'))).
Proof.
  intros Hd. unfold gram2. cbn [sshape map sumidx evalv]. apply sumn_ext. intros i _.
  rewrite (sumidx_ext _ _ (fun idx => sumn (rr a) (fun q => sumn (rr b) (fun q' =>
     sl a i p q * sl b i p' q' * (evalv X idx ones q * evalv Y idx ones q'))))).
  2:{ intros idx. rewrite <- (sumn_sumn_mul Kth). apply sumn_ext; intros q _. apply sumn_ext; intros q' _. ring. }
  rewrite (sumidx_sumn Kth). apply sumn_ext; intros q _. rewrite (sumidx_sumn Kth). apply sumn_ext; intros q' _.
  rewrite (sumidx_mul_l Kth). reflexivity.
Qed.

Lemma gram_right (cs : net) r p p' : rchain K r cs -> (p < r)%nat -> (p' < r)%nat -> gram2 cs cs p p' = delta p p'.
Proof. intros Hc Hp Hp'. exact (iso_right K Kth cs r p p' Hc Hp Hp'). Qed.

(* trace of the Gram matrix at the left bond *)
Definition trg (r : nat) (cs : net) : K := sumn r (fun p => gram2 cs cs p p).

Lemma trg_left (c : score K) (cs : net) : left_orthonormal c -> trg (rl c) (c :: cs) = trg (rr c) cs.
Proof.
  intros Ho. unfold trg.
  rewrite (sumn_ext (rl c) _ (fun p => sumn (dm c) (fun i => sumn (rr c) (fun q => sumn (rr c) (fun q' =>
     sl c i p q * sl c i p q' * gram2 cs cs q q'))))) by (intros; apply gram2_cons; reflexivity).
  rewrite (sumn_ext (rl c) _ (fun p => sumn (rr c) (fun q => sumn (rr c) (fun q' =>
     sumn (dm c) (fun i => sl c i p q * sl c i p q') * gram2 cs cs q q')))).
  2:{ intros p _. rewrite (sumn_exch Kth (dm c) (rr c)). apply sumn_ext; intros q _.
      rewrite (sumn_exch Kth (dm c) (rr c)). apply sumn_ext; intros q' _. rewrite (sumn_mul_r Kth). reflexivity. }
  rewrite (sumn_exch Kth (rl c) (rr c)). apply sumn_ext; intros q Hq.
  rewrite (sumn_exch Kth (rl c) (rr c)).
  rewrite (sumn_ext (rr c) _ (fun q' => delta q q' * gram2 cs cs q q')).
  2:{ intros q' Hq'. rewrite (sumn_mul_r Kth). rewrite (Ho q q' Hq Hq'). reflexivity. }
  apply (sumn_delta Kth). exact Hq.
Qed.

Fixpoint lchain (r : nat) (pre : net) : Prop :=
  match pre with [] => True | c :: pre' => rl c = r /\ left_orthonormal c /\ lchain (rr c) pre' end.

Lemma trg_prefix (pre : net) : forall r rest, lchain r pre -> trg r (pre ++ rest) = trg (last_rr r pre) rest.
Proof.
  induction pre as [|c pre IH]; intros r rest Hl; [reflexivity|].
  destruct Hl as (Hr & Ho & Hl). subst r. cbn [app]. rewrite (trg_left c (pre ++ rest) Ho).
  rewrite (IH (rr c) rest Hl). reflexivity.
Qed.

Definition frob (c : score K) : K := sumn (rl c) (fun p => sumn (dm c) (fun i => sumn (rr c) (fun q => sl c i p q * sl c i p q))).

Lemma trg_core (c : score K) (suf : net) : rchain K (rr c) suf -> trg (rl c) (c :: suf) = frob c.
Proof.
  intros Hc. unfold trg, frob. apply sumn_ext. intros p _. rewrite gram2_cons by reflexivity.
  apply sumn_ext. intros i _. apply sumn_ext. intros q Hq.
  rewrite (sumn_ext (rr c) _ (fun q' => delta q q' * (sl c i p q * sl c i p q'))).
  2:{ intros q' Hq'. rewrite (gram_right suf (rr c) q q' Hc Hq Hq'). ring. }
  apply (sumn_delta Kth). exact Hq.
Qed.

Definition hd1 (cs : net) : nat := match cs with c :: _ => rl c | [] => 1%nat end.
Lemma norm_is_trg (cs : net) : hd1 cs = 1%nat ->
  sumidx (sshape cs) (fun idx => eval cs idx * eval cs idx) = trg 1 cs.
Proof.
  intros H. unfold trg. rewrite (sumn_1 Kth). unfold gram2. apply sumidx_ext. intros idx.
  destruct cs as [|c cs]; [cbn; unfold ones; ring|]. unfold eval. cbn [hd1] in H. rewrite H, (sumn_1 Kth). reflexivity.
Qed.

(* |T|^2 = |c|_F^2 for T = (left-orthonormal prefix) c (right-orthonormal suffix) *)
Theorem sandwich_norm (pre : net) (c : score K) (suf : net) :
  lchain 1 pre -> last_rr 1 pre = rl c -> rchain K (rr c) suf ->
  sumidx (sshape (pre ++ c :: suf)) (fun idx => eval (pre ++ c :: suf) idx * eval (pre ++ c :: suf) idx) = frob c.
Proof.
  intros Hl Hb Hr. rewrite norm_is_trg.
  - rewrite (trg_prefix pre 1 (c :: suf) Hl), Hb. apply trg_core. exact Hr.
  - destruct pre as [|a pre]; cbn [app hd1]; [cbn in Hb; auto | destruct Hl as (H & _); exact H].
Qed.

(* replacing one core by another changes every entry by the entry of the network holding their difference *)
Definition csub (a b : score K) : score K := mkScore (rl a) (rr a) (dm a) (fun i p q => sl a i p q - sl b i p q).
Lemma evalv_lin_sub (cs : net) idx v w p : evalv cs idx (fun q => v q - w q) p = evalv cs idx v p - evalv cs idx w p.
Proof.
  rewrite (evalv_ext_v K cs idx (fun q => v q - w q) (fun q => v q + (- (1)) * w q) p) by (intros; ring).
  rewrite (evalv_lin_add K Kth), (evalv_lin_scal K Kth). ring.
Qed.
Theorem core_difference (pre : net) (a b : score K) (suf : net) idxp i idxs v p :
  length idxp = length pre -> rr a = rr b ->
  evalv (pre ++ a :: suf) (idxp ++ i :: idxs) v p - evalv (pre ++ b :: suf) (idxp ++ i :: idxs) v p =
  evalv (pre ++ csub a b :: suf) (idxp ++ i :: idxs) v p.
Proof.
  intros Hl Hrr. rewrite !(evalv_app K) by exact Hl. rewrite <- evalv_lin_sub.
  apply (evalv_ext_v K). intros q. cbn [evalv csub rr sl]. rewrite <- Hrr.
  rewrite <- (sumn_sub Kth). apply sumn_ext. intros; ring.
Qed.

(* zero Gram blocks propagate to the left through arbitrary (shape-compatible) prefixes *)
Definition same_dims (X Y : net) : Prop := sshape X = sshape Y.
Fixpoint wfpre (r0 : nat) (X : net) (rend : nat) : Prop :=
  match X with [] => r0 = rend | a :: X' => rl a = r0 /\ wfpre (rr a) X' rend end.
Lemma gram2_zero_prefix (X : net) : forall (Y RX RY : net) pX pY rX rY, same_dims X Y ->
  wfpre pX X rX -> wfpre pY Y rY ->
  (forall q q', (q < rX)%nat -> (q' < rY)%nat -> gram2 RX RY q q' = 0) ->
  forall p p', (p < pX)%nat -> (p' < pY)%nat -> gram2 (X ++ RX) (Y ++ RY) p p' = 0.
Proof.
  induction X as [|a X IH]; intros [|b Y] RX RY pX pY rX rY Hd HX HY Hz p p' Hp Hp'; unfold same_dims in Hd; cbn in Hd; try discriminate.
  - cbn in HX, HY. subst. apply Hz; assumption.
  - injection Hd as Hd1 Hd. destruct HX as [_ HX]. destruct HY as [_ HY]. cbn [app]. rewrite gram2_cons by exact Hd1.
    apply (sumn_zero_ext Kth). intros i _. apply (sumn_zero_ext Kth). intros q Hq. apply (sumn_zero_ext Kth). intros q' Hq'.
    rewrite (IH Y RX RY (rr a) (rr b) rX rY Hd HX HY Hz q q' Hq Hq'). ring.
Qed.
Lemma wfpre_hd1 (X : net) (c : score K) rest : wfpre 1 X (rl c) -> hd1 (X ++ c :: rest) = 1%nat.
Proof. destruct X as [|a X]; cbn; [auto | intros [H _]; exact H]. Qed.

(* E R^T = 0 in front of a shared right-orthonormal suffix makes the two tensors orthogonal *)
Theorem orthogonal_steps (X Y : net) (e r : score K) (suf : net) :
  same_dims X Y -> wfpre 1 X (rl e) -> wfpre 1 Y (rl r) ->
  dm e = dm r -> rr e = rr r -> rchain K (rr e) suf ->
  (forall p p', (p < rl e)%nat -> (p' < rl r)%nat ->
     sumn (dm e) (fun i => sumn (rr e) (fun q => sl e i p q * sl r i p' q)) = 0) ->
  sumidx (sshape (X ++ e :: suf)) (fun idx => eval (X ++ e :: suf) idx * eval (Y ++ r :: suf) idx) = 0.
Proof.
  intros Hd HX HY Hdm Hrr Hc Hz.
  assert (G: gram2 (X ++ e :: suf) (Y ++ r :: suf) O O = 0).
  { apply (gram2_zero_prefix X Y (e :: suf) (r :: suf) 1 1 (rl e) (rl r)); auto.
    intros p p' Hp Hp'. rewrite gram2_cons by exact Hdm.
    rewrite <- (Hz p p' Hp Hp'). apply sumn_ext. intros i _. apply sumn_ext. intros q Hq.
    rewrite <- Hrr.
    rewrite (sumn_ext (rr e) _ (fun q' => delta q q' * (sl e i p q * sl r i p' q'))).
    2:{ intros q' Hq'. rewrite (gram_right suf (rr e) q q' Hc Hq Hq'). ring. }
    apply (sumn_delta Kth). exact Hq. }
  rewrite <- G. unfold gram2. apply sumidx_ext. intros idx. unfold eval.
  pose proof (wfpre_hd1 X e suf HX) as H1. pose proof (wfpre_hd1 Y r suf HY) as H2.
  destruct (X ++ e :: suf) as [|a A] eqn:EA; [destruct X; discriminate|].
  destruct (Y ++ r :: suf) as [|b B] eqn:EB; [destruct Y; discriminate|].
  cbn [hd1] in H1, H2. rewrite H1, H2, !(sumn_1 Kth). reflexivity.
Qed.

(* pairwise orthogonal differences add up in squares *)
Fixpoint sum_fns (Ds : list (list nat -> K)) (idx : list nat) : K :=
  match Ds with [] => 0 | D :: Ds' => D idx + sum_fns Ds' idx end.
Fixpoint pairwise_orth (sh : list nat) (Ds : list (list nat -> K)) : Prop :=
  match Ds with
  | [] => True
  | D :: Ds' => Forall (fun D' => sumidx sh (fun idx => D idx * D' idx) = 0) Ds' /\ pairwise_orth sh Ds'
  end.
Fixpoint sum_sq (sh : list nat) (Ds : list (list nat -> K)) : K :=
  match Ds with [] => 0 | D :: Ds' => sumidx sh (fun idx => D idx * D idx) + sum_sq sh Ds' end.
Lemma inner_sum_zero sh (D : list nat -> K) (Ds : list (list nat -> K)) :
  Forall (fun D' => sumidx sh (fun idx => D idx * D' idx) = 0) Ds -> sumidx sh (fun idx => D idx * sum_fns Ds idx) = 0.
Proof.
  induction Ds as [|D' Ds IH]; intros H; cbn [sum_fns].
  - rewrite (sumidx_ext sh _ (fun _ => 0)) by (intros; ring). apply (sumidx_zero Kth).
  - inversion H as [|x l H1 H2]; subst x l.
    rewrite (sumidx_ext sh _ (fun idx => D idx * D' idx + D idx * sum_fns Ds idx)) by (intros; ring).
    rewrite (sumidx_add Kth), H1, (IH H2). ring.
Qed.
Theorem pythagoras sh (Ds : list (list nat -> K)) : pairwise_orth sh Ds ->
  sumidx sh (fun idx => sum_fns Ds idx * sum_fns Ds idx) = sum_sq sh Ds.
Proof.
  induction Ds as [|D Ds IH]; intros H; cbn [sum_fns sum_sq].
  - rewrite (sumidx_ext sh _ (fun _ => 0)) by (intros; ring). apply (sumidx_zero Kth).
  - destruct H as [H1 H2].
    rewrite (sumidx_ext sh _ (fun idx => D idx * D idx + (D idx * sum_fns Ds idx + D idx * sum_fns Ds idx) + sum_fns Ds idx * sum_fns Ds idx)) by (intros; ring).
    rewrite !(sumidx_add Kth), (inner_sum_zero sh D Ds H1), (IH H2). ring.
Qed.
End Sandwich.
