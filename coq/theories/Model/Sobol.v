(* anova.sobol(t, mask, marginals): a = anova_decomposition(t); a -= onehot * a[0..0]; am = a with every non-zero slice of
   mode n scaled by the normalised marginal; am_masked = tn.mask(am, mask) (slice 0 of the mask for index 0, slice 1 for
   every other index); result dot(a, am_masked) / dot(a, am).  [ws] are the normalised marginals.  No proofs here. *)
From TN Require Export Model.Anova Model.Dot Model.Logic.
Section Sobol.
Variable K : Ops.
Local Open Scope K_scope.
Notation net := (list (score K)).

Definition origin_net (sh : list nat) : net := map (fun d => vec_core d (fun i => delta i O)) sh.
Definition zeros (n : nat) : list nat := repeat O n.
(* a -= onehot * a[(0,)*N]  (the 0-dim factor scales one core of the rank-one tensor) *)
Definition centre (a : net) : option net :=
  add_net a (smul_net (first_scaled (neg1 * eval a (zeros (length a))) (length a)) (origin_net (sshape a))).
(* am.cores[n][:, 1:, :] *= m   resp.  am.Us[n][1:, :] *= m[:, None] *)
Definition mvec (m : nat -> K) : nat -> K := fun i => match i with O => 1 | S k => m k end.
Definition mmat (m : nat -> K) : nat -> nat -> K := fun i j => delta i j * mvec m i.
Fixpoint lin_modes (Ls : list (nat -> nat -> K)) (d's : list nat) (cs : net) : net :=
  match Ls, d's, cs with
  | L :: Ls', d' :: d's', c :: cs' => lin L d' c :: lin_modes Ls' d's' cs'
  | _, _, _ => cs
  end.
Definition weighted (ws : list (nat -> K)) (a : net) : net := lin_modes (map mmat ws) (sshape a) a.
(* tn.mask: mask.cores[n][..., idx, :] with idx = [0, 1, 1, ..., 1] *)
Definition pmat : nat -> nat -> K := fun i j => delta j (Nat.min i 1).
Definition mask_ext (mask : net) (sh : list nat) : net := lin_modes (map (fun _ => pmat) mask) sh mask.

Definition obind2 {A B} (x : option A) (f : A -> option B) : option B := match x with Some a => f a | None => None end.
Definition sobol_nets (ws : list (nat -> K)) (mask cs : net) : option (net * net * net) :=
  obind2 (centre (anova_net ws cs)) (fun a =>
  let am := weighted ws a in
  obind2 (mul_net am (mask_ext mask (sshape a))) (fun amm => Some (a, am, amm))).
(* numerator and denominator: tn.dot(a, am_masked), tn.dot(a, am) *)
Definition sobol_parts (ws : list (nat -> K)) (mask cs : net) : option (K * K) :=
  match sobol_nets ws mask cs with Some (a, am, amm) => Some (dot_net a amm, dot_net a am) | None => None end.
End Sobol.
Arguments origin_net {K}. Arguments zeros : clear implicits. Arguments centre {K}. Arguments mvec {K}. Arguments mmat {K}.
Arguments lin_modes {K}. Arguments weighted {K}. Arguments pmat {K}. Arguments mask_ext {K}. Arguments sobol_parts {K}. Arguments sobol_nets {K}.
