#!/bin/bash
# runs the thorough tier of every property once (seed 0); prints one summary line per property
cd "$(dirname "$0")/.." || exit 2
/venv/bin/python harness/check.py --setup > /dev/null 2>&1 || { echo "setup failed"; exit 2; }
rc=0
for i in $(seq -w 1 20); do
  s=$(date +%s)
  /venv/bin/python harness/check.py --property C$i --tier thorough > /tmp/thorough_C$i.out 2>&1 || rc=1
  grep -E "VIOLATION|thorough:" /tmp/thorough_C$i.out | cut -c1-300
  echo "C$i wall $(( $(date +%s) - s )) s"
done
exit $rc
