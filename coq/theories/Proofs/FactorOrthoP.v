(* factor_orthogonalize(mu): Q, R = qr(U_mu); U_mu <- Q; core_mu <- R x core_mu (along the spatial index).
   At the level of one mode (Model/Format.v): the semantic core is unchanged, and the new factor has orthonormal columns. *)
From TN Require Export Model.Format Model.Ortho.
From TN Require Import Sem.Moves.
Section FactorOrtho.
Variable K : Ops.
Hypothesis Kth : laws K.
Add Ring Kring : Kth.
Local Open Scope K_scope.
Variable qr : nat -> nat -> (nat -> nat -> K) -> nat * (nat -> nat -> K) * (nat -> nat -> K).

(* R applied to the spatial index of a TT core / CP factor *)
Definition apply_R (k s : nat) (R : nat -> nat -> K) (c : cdata K) : cdata K :=
  match c with
  | CTT a _ b g => CTT a k b (fun p t q => sumn s (fun j => R t j * g p j q))
  | CCP _ r g => CCP k r (fun t q => sumn s (fun j => R t j * g j q))
  end.
Definition factor_step (m : mode K) : mode K :=
  match fac m with
  | None => m
  | Some (di, s, U) => let '(k, Q, R) := qr di s U in mkMode (apply_R k s R (core m)) (Some (di, k, Q))
  end.

Lemma c_sl_apply_R k s R (c : cdata K) t p q : c_sz c = s ->
  c_sl (apply_R k s R c) t p q = sumn s (fun j => R t j * c_sl c j p q).
Proof.
  intros Hs. destruct c as [a s0 b g|s0 r g]; cbn [apply_R c_sl c_sz] in *.
  - reflexivity.
  - destruct (Nat.eqb p q).
    + reflexivity.
    + symmetry. apply (sumn_zero_ext Kth). intros; ring.
Qed.

Theorem factor_step_sound (m : mode K) : wf_mode m = true ->
  (forall di s U, fac m = Some (di, s, U) -> qr_exact qr di s U) ->
  let m' := factor_step m in
  rl (sem_mode m') = rl (sem_mode m) /\ rr (sem_mode m') = rr (sem_mode m) /\ dm (sem_mode m') = dm (sem_mode m) /\
  forall i p q, (i < dm (sem_mode m))%nat -> sl (sem_mode m') i p q = sl (sem_mode m) i p q.
Proof.
  intros Hwf Hex. unfold factor_step. destruct (fac m) as [[[di s] U]|] eqn:Ef; [|cbv zeta; repeat split; reflexivity].
  specialize (Hex di s U eq_refl). unfold qr_exact in Hex. destruct (qr di s U) as [[k Q] R].
  unfold wf_mode in Hwf. rewrite Ef in Hwf. apply Nat.eqb_eq in Hwf.
  cbv zeta. unfold sem_mode. cbn [fac core]. rewrite Ef.
  destruct (core m) as [a s0 b g|s0 r g] eqn:Ec; cbn [apply_R c_rl c_rr rl rr dm sl c_sz] in *; (split; [reflexivity|split; [reflexivity|split; [reflexivity|]]]);
    intros i p q Hi.
  - rewrite (sumn_ext k _ (fun t => sumn s (fun j => Q i t * R t j * g p j q))).
    2:{ intros t _. cbn [c_sl]. rewrite <- (sumn_mul_l Kth). apply sumn_ext; intros; ring. }
    rewrite (sumn_exch Kth k s). subst s0. apply sumn_ext. intros j Hj. cbn [c_sl].
    rewrite (Hex i j Hi Hj). rewrite (sumn_mul_r Kth). reflexivity.
  - rewrite (sumn_ext k _ (fun t => sumn s (fun j => Q i t * R t j * c_sl (CCP s0 r g) j p q))).
    2:{ intros t _. change (CCP k r (fun t0 q0 : nat => sumn s (fun j : nat => R t0 j * g j q0))) with (apply_R k s R (CCP s0 r g)).
        rewrite (c_sl_apply_R k s R (CCP s0 r g) t p q (eq_sym Hwf)). rewrite <- (sumn_mul_l Kth). apply sumn_ext; intros; ring. }
    rewrite (sumn_exch Kth k s). subst s0. apply sumn_ext. intros j Hj.
    rewrite (Hex i j Hi Hj). rewrite (sumn_mul_r Kth). reflexivity.
Qed.

Theorem factor_step_gauge (m : mode K) di s U : fac m = Some (di, s, U) -> qr_orthonormal qr di s U ->
  match fac (factor_step m) with
  | Some (di', k, Q) => di' = di /\ forall a b, (a < k)%nat -> (b < k)%nat -> sumn di (fun i => Q i a * Q i b) = delta a b
  | None => False
  end.
Proof.
  intros Ef Ho. unfold factor_step. rewrite Ef. unfold qr_orthonormal in Ho. destruct (qr di s U) as [[k Q] R].
  cbn [fac]. split; [reflexivity|exact Ho].
Qed.
End FactorOrtho.
