From TN Require Export Harness.HBase Sem.Fast Model.Matrix.
From Coq Require Import QArith Qabs.
(* TT-/CP-matrices: the cores the implementation holds are decompressed, traced and multiplied by the model and compared
   with TTMatrix.torch(), .trace(), tn.tt_multiply / CPMatrix.torch(), tn.cp_multiply (row-major flat outputs). *)
Definition lit_mc (a i o b : nat) (l : list Q) : mcore QO :=          (* torch layout (r_l, i, o, r_r) *)
  mkMC (K:=QO) a b i o (fun ii oo p q => nth (((p * i + ii) * o + oo) * b + q)%nat l 0%Q).
Definition lit_cpc (i o r : nat) (l : list Q) : cpcore QO :=           (* torch layout (i, o, R) *)
  mkCPC (K:=QO) i o (fun ii oo k => nth ((ii * o + oo) * r + k)%nat l 0%Q).

Inductive case :=
| KT (cs : list (mcore QO)) (dense : list Q) (tr : option Q) (v : list (list Q)) (mult : list (list Q))
| KC (R : nat) (cs : list (cpcore QO)) (dense : list Q) (v : list (list Q)) (mult : list (list Q)).

Definition maxabs (l : list Q) : Q := fold_right (fun x acc => if Qle_bool acc (Qabs x) then Qabs x else acc) 0%Q l.
Definition cmp_scaled (scale : Q) (x y : Q) : bool := Qle_bool (Qabs (x - y)) ((1 # 1000000000) * (1 + scale)).
Definition cmpl (a b : list Q) : bool := list_cmp (cmp_scaled (maxabs b)) a b.

Definition check (c : case) : bool :=
  match c with
  | KT cs dense tr v mult =>
      let d := length cs in let idm := idims cs in let odm := odims cs in
      cmpl (dense_of (fun idx => eval_l (map flat cs) (mzip cs (firstn d idx) (skipn d idx))) (idm ++ odm)) dense &&
      (match tr with Some x => cmp_scaled (Qabs x) (trace cs) x | None => true end) &&
      list_cmp (fun xb mb => cmpl (dense_of (tt_multiply cs (fun ii => nth (ravel idm ii) xb 0%Q)) odm) mb) v mult
  | KC R cs dense v mult =>
      let d := length cs in let idm := cidims cs in let odm := map (@co QO) cs in
      cmpl (dense_of (fun idx => cp_entry R cs (firstn d idx) (skipn d idx)) (idm ++ odm)) dense &&
      list_cmp (fun xb mb => cmpl (dense_of (cp_multiply R cs (fun ii => nth (ravel idm ii) xb 0%Q)) odm) mb) v mult
  end.
