(* logic.relevant_symbols / irrelevant_symbols / only:  the tensor whose norm relevant_symbols tests for variable n has the
   entries f(x_n = 1) - f(x_n = 0) (Boolean derivative), and only(t) multiplies t by the indicator that every irrelevant
   variable is false. *)
From TN Require Export Proofs.LogicP Proofs.ToolsP Proofs.ArithP.
Section LogicRel.
Variable K : Ops.
Hypothesis Kth : laws K.
Add Ring Kring : Kth.
Local Open Scope K_scope.
Notation net := (list (score K)).

(* cores[n][:, 1:2, :] - cores[n][:, 0:1, :] on mode n, the other modes untouched *)
Definition dmat : nat -> nat -> K := fun _ j => match j with O => - (1) | S O => 1 | _ => 0 end.
Definition bool_deriv_net (n : nat) (cs : net) : net := ttm_net n 1 dmat cs.

Theorem bool_deriv_sound (n : nat) (cs : net) c idx i :
  nth_error cs n = Some c -> dm c = 2%nat -> nth_error idx n = Some i ->
  eval (bool_deriv_net n cs) idx = eval cs (upd n idx 1%nat) - eval cs (upd n idx O).
Proof.
  intros Hc Hd Hi. unfold bool_deriv_net. rewrite (ttm_sound K Kth n 1 dmat cs c idx i Hc Hi). rewrite Hd.
  cbn [sumn dmat]. ring.
Qed.

(* only(t) = tn.mask(t, absence(N, irrelevant)) = t * absence *)
Definition only_net (N : nat) (irrelevant : list nat) (cs : net) : option net := mul_net cs (absence_net N irrelevant).

Lemma good_rank1 d (vs : list (nat -> K)) : vs <> [] -> good K (rank1_net d vs) /\ sshape (rank1_net d vs) = map (fun _ => d) vs.
Proof.
  intros Hne. destruct vs as [|v vs]; [congruence|]. split; [split|].
  - discriminate.
  - cbn [rank1_net map hd_rl vec_core rl chain rr Nat.eqb andb].
    induction vs as [|w vs IH]; [reflexivity|]. cbn [map chain vec_core rl rr Nat.eqb andb]. apply IH. discriminate.
  - unfold rank1_net, sshape. rewrite map_map. reflexivity.
Qed.

Lemma map_const_seq {A} (a : A) n : forall s, map (fun _ => a) (seq s n) = repeat a n.
Proof. induction n as [|n IH]; intros s; [reflexivity|]. cbn [seq map repeat]. f_equal. apply IH. Qed.

Theorem only_sound (N : nat) (irr : list nat) (cs r : net) x :
  good K cs -> sshape cs = repeat 2%nat N -> (0 < N)%nat -> only_net N irr cs = Some r ->
  in_range (repeat 2%nat N) x = true ->
  eval r x = eval cs x * prod_at (map (sel_vec irr 1 0) (seq 0 N)) x.
Proof.
  intros Gc Sc HN H Hx. unfold only_net in H.
  assert (Hne: map (sel_vec (K:=K) irr 1 0) (seq 0 N) <> []) by (destruct N; [lia|discriminate]).
  destruct (good_rank1 2 _ Hne) as [Ga Sa].
  assert (Sa': sshape (absence_net (K:=K) N irr) = repeat 2%nat N).
  { unfold absence_net, sel_net. rewrite Sa, map_map. apply map_const_seq. }
  destruct (mul_net_sound K Kth cs (absence_net N irr) r Gc Ga H) as (Gr & Br & Er).
  pose proof (in_range_length _ _ Hx) as Lx. rewrite repeat_length in Lx.
  rewrite Sc, Sa', bshape_same in Br. injection Br as Sr.
  rewrite Er by (rewrite <- (sshape_length K), <- Sr, repeat_length; exact Lx).
  rewrite Sc, Sa', !clip_in_range by exact Hx. f_equal.
  apply (sel_value K Kth N irr 1 0 x HN Lx).
Qed.
End LogicRel.
