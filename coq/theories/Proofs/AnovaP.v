From TN Require Export Sem.Moves.
From TN Require Export Model.Anova.
Section AnovaP.
Variable K : Ops.
Hypothesis Kth : laws K.
Add Ring Kring : Kth.
Local Open Scope K_scope.
Notation net := (list (score K)).

Fixpoint lin_all (Ls : list (nat -> nat -> K)) (d's : list nat) (cs : net) : net :=
  match Ls, d's, cs with
  | L :: Ls', d' :: d's', c :: cs' => lin L d' c :: lin_all Ls' d's' cs'
  | _, _, _ => cs
  end.

Lemma dlin_ext Ls : forall ds (F G : list nat -> K) idx, (forall r, F r = G r) -> dlin Ls ds F idx = dlin Ls ds G idx.
Proof. induction Ls as [|L Ls IH]; intros [|d ds] F G [|i idx] H; cbn [dlin]; auto.
  apply sumn_ext. intros j _. f_equal. apply IH. intros; apply H. Qed.

Lemma dlin_sum Ls : forall ds n (a : nat -> K) (F : nat -> list nat -> K) idx,
  dlin Ls ds (fun r => sumn n (fun q => a q * F q r)) idx = sumn n (fun q => a q * dlin Ls ds (F q) idx).
Proof.
  induction Ls as [|L Ls IH]; intros [|d ds] n a F [|i idx]; cbn [dlin]; auto.
  rewrite (sumn_ext d _ (fun j => sumn n (fun q => a q * (L i j * dlin Ls ds (fun r => F q (j :: r)) idx)))).
  2:{ intros j _. rewrite (IH ds n a (fun q r => F q (j :: r)) idx).
      rewrite <- (sumn_mul_l Kth). apply sumn_ext; intros; ring. }
  rewrite (sumn_exch Kth). apply sumn_ext. intros q _. rewrite (sumn_mul_l Kth). reflexivity.
Qed.

(* linear maps on all modes at once *)
Theorem lin_all_sound Ls : forall d's (cs : net) idx v p, length Ls = length cs -> length d's = length cs ->
  length idx = length cs ->
  evalv (lin_all Ls d's cs) idx v p = dlin Ls (sshape cs) (fun r => evalv cs r v p) idx.
Proof.
  induction Ls as [|L Ls IH]; intros [|d' d's] [|c cs] [|i idx] v p H1 H2 H3; try discriminate; [reflexivity|].
  cbn [lin_all evalv lin rr sl sshape map dlin].
  rewrite (sumn_ext (rr c) _ (fun q => sumn (dm c) (fun j => L i j * (sl c j p q * evalv (lin_all Ls d's cs) idx v q)))).
  2:{ intros q _. rewrite <- (sumn_mul_r Kth). apply sumn_ext; intros; ring. }
  rewrite (sumn_exch Kth). apply sumn_ext. intros j _. rewrite (sumn_mul_l Kth). f_equal.
  rewrite (sumn_ext (rr c) _ (fun q => sl c j p q * dlin Ls (sshape cs) (fun r => evalv cs r v q) idx)).
  2:{ intros q _. rewrite IH by (simpl in *; lia). reflexivity. }
  rewrite <- (dlin_sum Ls (sshape cs) (rr c) (fun q => sl c j p q) (fun q r => evalv cs r v q) idx).
  reflexivity.
Qed.


(* eval-level version, and structure of lin_all *)
Theorem lin_all_eval Ls d's (cs : net) idx : cs <> [] -> length Ls = length cs -> length d's = length cs ->
  length idx = length cs ->
  eval (lin_all Ls d's cs) idx = dlin Ls (sshape cs) (eval cs) idx.
Proof.
  intros Hne H1 H2 Hi.
  destruct cs as [|c cs]; [congruence|]. destruct Ls as [|L Ls]; [discriminate|]. destruct d's as [|d' d's]; [discriminate|].
  unfold eval at 1. cbn [lin_all lin rl].
  rewrite (sumn_ext (rl c) _ (fun p => 1 * dlin (L :: Ls) (sshape (c :: cs)) (fun r => evalv (c :: cs) r ones p) idx)).
  2:{ intros p _. rewrite <- (lin_all_sound (L :: Ls) (d' :: d's) (c :: cs) idx ones p); auto.
      cbn [lin_all]. ring. }
  rewrite <- (dlin_sum (L :: Ls) (sshape (c :: cs)) (rl c) (fun _ => 1) (fun p r => evalv (c :: cs) r ones p) idx).
  apply dlin_ext. intros r. unfold eval. apply sumn_ext. intros; ring.
Qed.

Lemma lin_all_struct Ls : forall d's (cs : net) r, length Ls = length cs -> length d's = length cs ->
  chain r (lin_all Ls d's cs) = chain r cs /\ sshape (lin_all Ls d's cs) = d's /\
  length (lin_all Ls d's cs) = length cs /\
  match lin_all Ls d's cs, cs with a :: _, b :: _ => rl a = rl b | [], [] => True | _, _ => False end.
Proof.
  induction Ls as [|L Ls IH]; intros [|d' d's] [|c cs] r H1 H2; try discriminate; [repeat split; reflexivity|].
  destruct (IH d's cs (rr c)) as (C & S & Le & _); [simpl in *; lia|simpl in *; lia|].
  cbn [lin_all chain lin rl rr sshape map dm length]. rewrite C. repeat split; auto; f_equal; auto.
Qed.

Lemma anova_is_lin_all ws : forall (cs : net), length ws = length cs ->
  anova_net ws cs = lin_all (map amat ws) (map (fun c => S (dm c)) cs) cs.
Proof. induction ws as [|w ws IH]; intros [|c cs] H; try discriminate; [reflexivity|].
  cbn [anova_net map lin_all]. f_equal. apply IH. simpl in H. lia. Qed.

(* the extended tensor: entry j is the dense function transformed mode by mode by the rows of amat *)
Theorem anova_extended ws (cs : net) idx : cs <> [] -> length ws = length cs -> length idx = length cs ->
  eval (anova_net ws cs) idx = dlin (map amat ws) (sshape cs) (eval cs) idx.
Proof.
  intros Hne Hw Hi. rewrite anova_is_lin_all by assumption.
  destruct cs as [|c cs]; [congruence|]. destruct ws as [|w ws]; [discriminate|].
  unfold eval at 1. cbn [map lin_all lin rl].
  rewrite (sumn_ext (rl c) _ (fun p => 1 * dlin (map amat (w :: ws)) (sshape (c :: cs)) (fun r => evalv (c :: cs) r ones p) idx)).
  2:{ intros p _. rewrite <- (lin_all_sound (map amat (w :: ws)) (map (fun c0 => S (dm c0)) (c :: cs)) (c :: cs) idx ones p);
        [cbn [map lin_all]; ring| | |]; rewrite ?map_length; auto. }
  rewrite <- (dlin_sum (map amat (w :: ws)) (sshape (c :: cs)) (rl c) (fun _ => 1) (fun p r => evalv (c :: cs) r ones p) idx).
  apply dlin_ext. intros r. unfold eval. apply sumn_ext. intros; ring.
Qed.

(* B A = I: undo after anova gives the original slices back (no condition on the marginals) *)
Lemma undo_anova_mode w (c : score K) :
  score_eq_in c (lin bmat (dm (lin (amat w) (S (dm c)) c) - 1) (lin (amat w) (S (dm c)) c)).
Proof.
  cbn [lin dm]. rewrite Nat.sub_succ, Nat.sub_0_r. repeat split; auto.
  cbn [lin rl rr dm sl]. intros i p q Hi Hp Hq.
  pose (X := fun j' => sumn (dm c) (fun j => amat w j' j * sl c j p q)).
  assert (E: sumn (S (dm c)) (fun j' => bmat i j' * X j') = X (S i) + X O).
  { unfold bmat.
    rewrite (sumn_ext (S (dm c)) (fun j' => (delta j' (S i) + delta j' O) * X j')
                      (fun j' => delta (S i) j' * X j' + delta O j' * X j')).
    2:{ intros j' _. unfold delta. rewrite (Nat.eqb_sym j' (S i)), (Nat.eqb_sym j' O). ring. }
    rewrite (sumn_add Kth), !(sumn_delta Kth) by lia. reflexivity. }
  change (sl c i p q = sumn (S (dm c)) (fun j' => bmat i j' * X j')). rewrite E.
  unfold X, amat. cbv beta iota.
  rewrite <- (sumn_add Kth (dm c) (fun j => (delta i j - w j) * sl c j p q) (fun j => w j * sl c j p q)).
  rewrite (sumn_ext (dm c) _ (fun j => delta i j * sl c j p q)) by (intros; ring).
  symmetry. apply (sumn_delta Kth (dm c) i (fun j => sl c j p q)). exact Hi.
Qed.

Theorem undo_anova ws (cs : net) idx : length ws = length cs ->
  chain (match cs with c :: _ => rl c | [] => O end) cs = true -> in_range (sshape cs) idx = true ->
  eval (undo_net (anova_net ws cs)) idx = eval cs idx.
Proof.
  intros Hw Hc Hr. symmetry. apply (L0_eval K); auto.
  clear Hc Hr. revert cs Hw. induction ws as [|w ws IH]; intros [|c cs] Hw; try discriminate; [constructor|].
  cbn [anova_net undo_net map]. constructor; [apply undo_anova_mode|]. apply IH. simpl in Hw. lia.
Qed.

(* centring: the rows of amat below the first average to zero under the marginal *)
Theorem amat_centred (w : nat -> K) n k : sumn n w = 1 ->
  (k < n)%nat -> sumn n (fun i => w i * amat w (S i) k) = 0.
Proof.
  intros Hw Hk. unfold amat.
  rewrite (sumn_ext n _ (fun i => w i * delta i k - w i * w k)) by (intros; ring).
  rewrite (sumn_sub Kth), (sumn_delta_r Kth) by exact Hk. rewrite (sumn_mul_r Kth), Hw. ring.
Qed.

Theorem bmat_amat (w : nat -> K) n i k : (i < n)%nat ->
  sumn (S n) (fun j => bmat i j * amat w j k) = delta i k.
Proof.
  intros Hi. unfold bmat.
  rewrite (sumn_ext _ _ (fun j => delta (S i) j * amat w j k + delta O j * amat w j k)).
  2:{ intros j _. unfold delta. rewrite (Nat.eqb_sym j (S i)), (Nat.eqb_sym j O). ring. }
  rewrite (sumn_add Kth), !(sumn_delta Kth) by lia. unfold amat. ring.
Qed.
End AnovaP.
