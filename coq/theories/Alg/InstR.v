(* The real numbers as a carrier (non-executable): statements with sqrt, order, norms. *)
From TN Require Export Alg.Ops.
From Coq Require Export Reals Lra.

Definition RO : Ops := mkOps R 0%R 1%R Rplus Rmult Rminus Ropp.
Lemma RO_laws : laws RO.
Proof. constructor; intros; cbn; ring. Qed.

Notation sumR := (sumidx (K:=RO)).

Lemma sumnR_nonneg n (f : nat -> R) : (forall i, (i < n)%nat -> (0 <= f i)%R) -> (0 <= sumn (K:=RO) n f)%R.
Proof. induction n; intros H; cbn; [lra|]. assert (0 <= sumn (K:=RO) n f)%R by (apply IHn; intros; apply H; lia).
  specialize (H n ltac:(lia)). lra. Qed.

Lemma sumR_nonneg sh (f : list nat -> R) : (forall idx, (0 <= f idx)%R) -> (0 <= sumR sh f)%R.
Proof. revert f. induction sh as [|d sh IH]; intros f H; cbn [sumidx]; [apply H|].
  apply sumnR_nonneg. intros i _. apply IH. intros; apply H. Qed.

Lemma sumnR_zero_each n (f : nat -> R) : (forall i, (i < n)%nat -> (0 <= f i)%R) -> sumn (K:=RO) n f = 0%R ->
  forall i, (i < n)%nat -> f i = 0%R.
Proof.
  induction n; intros H E i Hi; [lia|]. cbn in E.
  assert (0 <= sumn (K:=RO) n f)%R by (apply sumnR_nonneg; intros; apply H; lia).
  assert (0 <= f n)%R by (apply H; lia).
  destruct (Nat.eq_dec i n); [subst; lra|]. apply IHn; try lia; [intros; apply H; lia|lra].
Qed.

Lemma sumR_zero_each sh : forall (f : list nat -> R), (forall idx, (0 <= f idx)%R) -> sumR sh f = 0%R ->
  forall idx, in_range sh idx = true -> f idx = 0%R.
Proof.
  induction sh as [|d sh IH]; intros f H E idx Hr.
  - destruct idx; [|discriminate]. exact E.
  - destruct idx as [|i idx]; [discriminate|]. cbn [in_range] in Hr. apply andb_true_iff in Hr.
    destruct Hr as [Hi Hr]. apply Nat.ltb_lt in Hi. cbn [sumidx] in E.
    assert (Ez := sumnR_zero_each d _ (fun j _ => sumR_nonneg sh _ (fun x => H (j :: x))) E i Hi).
    apply (IH (fun x => f (i :: x))); auto.
Qed.

Lemma sumR_ext_in sh : forall (f g : list nat -> R),
  (forall idx, in_range sh idx = true -> f idx = g idx) -> sumR sh f = sumR sh g.
Proof.
  induction sh as [|d sh IH]; intros f g H; cbn [sumidx]; [apply H; reflexivity|].
  apply sumn_ext. intros i Hi. apply IH. intros idx Hr. apply H. cbn [in_range].
  rewrite Hr. apply Nat.ltb_lt in Hi. rewrite Hi. reflexivity.
Qed.
