(* C08 -- exact recovery of representable targets (skeleton / CUR argument), over any commutative ring.
   cur_exact: a matrix that factors through inner dimension r, A = X Y, is reproduced everywhere by
     A[:, J] W A[I, :]  when  A[I, J] W = I  and the r x r block X[I, :] has a left inverse.
   tt_recovery: the same argument applied to every unfolding, by induction over the modes: the network made of the
     sampled first-mode fibres followed by the cores  core_j = W_j x (fibres of the target through the index sets)
     (the cores of the final right-to-left sweep of cross, and of cross_forward's formula) equals the target on the
     whole grid.  The rank condition "TT ranks <= ranks used" is the factorisation of every unfolding through r_j. *)
From TN Require Import Sem.Moves Proofs.CrossP.
Local Open Scope nat_scope.

Section Recover.
Variable K : Ops.
Hypothesis Kth : laws K.
Add Ring KringR : Kth.
Local Open Scope K_scope.
Notation score := (score K).

Section CUR.
Variables RI CI : Type.
Variable r : nat.
Variable A : RI -> CI -> K.
Variable X : RI -> nat -> K.
Variable Y : nat -> CI -> K.
Variable PR : RI -> Prop.
Variable PC : CI -> Prop.
Variable rowsel : nat -> RI.
Variable colsel : nat -> CI.
Variables W U : nat -> nat -> K.
Hypothesis factor : forall i c, PR i -> PC c -> A i c = sumn r (fun s => X i s * Y s c).
Hypothesis rows_ok : forall t, (t < r)%nat -> PR (rowsel t).
Hypothesis cols_ok : forall a, (a < r)%nat -> PC (colsel a).
Hypothesis AhatW : forall t a, (t < r)%nat -> (a < r)%nat ->
  sumn r (fun a' => A (rowsel t) (colsel a') * W a' a) = delta t a.
Hypothesis UX : forall s s', (s < r)%nat -> (s' < r)%nat ->
  sumn r (fun t => U s t * X (rowsel t) s') = delta s s'.

Definition Dmat (c : CI) (a : nat) : K := sumn r (fun t => W a t * A (rowsel t) c).
Definition Gmat (c : CI) (s : nat) : K := sumn r (fun a => Y s (colsel a) * Dmat c a).

Lemma cur_expand i c : PR i -> sumn r (fun a => A i (colsel a) * Dmat c a) = sumn r (fun s => X i s * Gmat c s).
Proof.
  intros Hi. unfold Gmat.
  rewrite (sumn_ext r _ (fun a => sumn r (fun s => X i s * (Y s (colsel a) * Dmat c a)))).
  2:{ intros a Ha. rewrite (factor i (colsel a) Hi (cols_ok a Ha)). rewrite <- sumn_mul_r by exact Kth.
      apply sumn_ext. intros s _. ring. }
  rewrite sumn_exch by exact Kth. apply sumn_ext. intros s _. rewrite sumn_mul_l by exact Kth. reflexivity.
Qed.

Lemma cur_rows t c : (t < r)%nat -> sumn r (fun s => X (rowsel t) s * Gmat c s) = A (rowsel t) c.
Proof.
  intros Ht. rewrite <- (cur_expand (rowsel t) c (rows_ok t Ht)). unfold Dmat.
  rewrite (sumn_ext r _ (fun a => sumn r (fun t' => (A (rowsel t) (colsel a) * W a t') * A (rowsel t') c))).
  2:{ intros a _. rewrite <- sumn_mul_l by exact Kth. apply sumn_ext. intros t' _. ring. }
  rewrite sumn_exch by exact Kth.
  rewrite (sumn_ext r _ (fun t' => delta t t' * A (rowsel t') c)).
  2:{ intros t' Ht'. rewrite sumn_mul_r by exact Kth. rewrite (AhatW t t' Ht Ht'). reflexivity. }
  apply (sumn_delta Kth r t (fun t' => A (rowsel t') c) Ht).
Qed.

Lemma cur_G s c : (s < r)%nat -> PC c -> Gmat c s = Y s c.
Proof.
  intros Hs Hc.
  transitivity (sumn r (fun t => U s t * A (rowsel t) c)).
  - rewrite <- (sumn_delta Kth r s (fun s' => Gmat c s') Hs).
    rewrite (sumn_ext r _ (fun s' => sumn r (fun t => U s t * (X (rowsel t) s' * Gmat c s')))).
    2:{ intros s' Hs'. rewrite <- (UX s s' Hs Hs'). rewrite <- sumn_mul_r by exact Kth.
        apply sumn_ext. intros t _. ring. }
    rewrite sumn_exch by exact Kth. apply sumn_ext. intros t Ht.
    rewrite sumn_mul_l by exact Kth. rewrite (cur_rows t c Ht). reflexivity.
  - rewrite (sumn_ext r _ (fun t => sumn r (fun s' => (U s t * X (rowsel t) s') * Y s' c))).
    2:{ intros t Ht. rewrite (factor (rowsel t) c (rows_ok t Ht) Hc). rewrite <- sumn_mul_l by exact Kth.
        apply sumn_ext. intros s' _. ring. }
    rewrite sumn_exch by exact Kth.
    rewrite (sumn_ext r _ (fun s' => delta s s' * Y s' c)).
    2:{ intros s' Hs'. rewrite sumn_mul_r by exact Kth. rewrite (UX s s' Hs Hs'). reflexivity. }
    apply (sumn_delta Kth r s (fun s' => Y s' c) Hs).
Qed.

(* A = A[:, J] (W A[I, :]) on every admissible row and column *)
Theorem cur_exact i c : PR i -> PC c ->
  sumn r (fun a => A i (colsel a) * sumn r (fun t => W a t * A (rowsel t) c)) = A i c.
Proof.
  intros Hi Hc. change (sumn r (fun a => A i (colsel a) * Dmat c a) = A i c).
  rewrite (cur_expand i c Hi). rewrite (factor i c Hi Hc).
  apply sumn_ext. intros s Hs. rewrite (cur_G s c Hs Hc). reflexivity.
Qed.
End CUR.

(* ---------------- all modes ---------------- *)
Record level := mkLevel {
  lv_r : nat;                        (* r_j = left rank of core j *)
  lv_L : nat -> list nat;            (* lsets[j] without the dummy: j indices *)
  lv_R : nat -> list nat;            (* rsets[j-1] without the dummy: indices of modes j .. N-1 *)
  lv_W : nat -> nat -> K;            (* inverse of the intersection T(L, R) *)
  lv_X : list nat -> nat -> K;       (* rank factorisation of the j-th unfolding  T(l ++ c) = sum_s X l s * Y s c *)
  lv_Y : nat -> list nat -> K;
  lv_U : nat -> nat -> K }.          (* left inverse of X restricted to the rows L *)

Definition next_r (lvs : list level) : nat := match lvs with [] => 1%nat | lv :: _ => lv_r lv end.
Definition next_R (lvs : list level) : nat -> list nat := match lvs with [] => fun _ => [] | lv :: _ => lv_R lv end.

Fixpoint recov (T : list nat -> K) (j : nat) (cs : list score) (lvs : list level) : Prop :=
  match cs, lvs with
  | [], [] => True
  | c :: cs', lv :: lvs' =>
      let r := lv_r lv in
      rl c = r /\ rr c = next_r lvs' /\
      (forall i a b, (a < r)%nat -> (b < next_r lvs')%nat ->
          sl c i a b = sumn r (fun t => lv_W lv a t * T (lv_L lv t ++ i :: next_R lvs' b))) /\
      (forall t, (t < r)%nat -> length (lv_L lv t) = j) /\
      (forall a, (a < r)%nat -> length (lv_R lv a) = length cs) /\
      (forall l c, length l = j -> length c = length cs -> T (l ++ c) = sumn r (fun s => lv_X lv l s * lv_Y lv s c)) /\
      (forall t a, (t < r)%nat -> (a < r)%nat ->
          sumn r (fun a' => T (lv_L lv t ++ lv_R lv a') * lv_W lv a' a) = delta t a) /\
      (forall s s', (s < r)%nat -> (s' < r)%nat ->
          sumn r (fun t => lv_U lv s t * lv_X lv (lv_L lv t) s') = delta s s') /\
      recov T (S j) cs' lvs'
  | _, _ => False
  end.

Lemma recov_tail (T : list nat -> K) (cs : list score) : forall j lvs, recov T j cs lvs ->
  forall l idx, length l = j -> length idx = length cs ->
    sumn (next_r lvs) (fun a => T (l ++ next_R lvs a) * evalv cs idx ones a) = T (l ++ idx).
Proof.
  induction cs as [|c cs IH]; intros j lvs H l idx Hl Hidx.
  - destruct lvs; [|contradiction]. destruct idx; [|discriminate].
    cbn [next_r next_R sumn evalv]. unfold ones. ring.
  - destruct lvs as [|lv lvs]; [contradiction|]. destruct idx as [|i rest]; [discriminate|].
    cbn [recov] in H. destruct H as (Hrl & Hrr & Hsl & HLl & HRl & Hfac & HAW & HUX & Hrest).
    cbn [next_r next_R].
    assert (HD : forall a, (a < lv_r lv)%nat ->
       evalv (c :: cs) (i :: rest) ones a = sumn (lv_r lv) (fun t => lv_W lv a t * T (lv_L lv t ++ i :: rest))).
    { intros a Ha. cbn [evalv]. rewrite Hrr.
      rewrite (sumn_ext (next_r lvs) _ (fun b => sumn (lv_r lv) (fun t =>
                 lv_W lv a t * (T ((lv_L lv t ++ [i]) ++ next_R lvs b) * evalv cs rest ones b)))).
      2:{ intros b Hb. rewrite (Hsl i a b Ha Hb). rewrite <- sumn_mul_r by exact Kth.
          apply sumn_ext. intros t _. rewrite <- app_assoc. cbn [app]. ring. }
      rewrite sumn_exch by exact Kth. apply sumn_ext. intros t Ht.
      rewrite sumn_mul_l by exact Kth. f_equal.
      rewrite (IH (S j) lvs Hrest (lv_L lv t ++ [i]) rest).
      - rewrite <- app_assoc. reflexivity.
      - rewrite app_length, (HLl t Ht). cbn [length]. lia.
      - cbn [length] in Hidx. lia. }
    rewrite (sumn_ext (lv_r lv) _ (fun a => T (l ++ lv_R lv a) *
                 sumn (lv_r lv) (fun t => lv_W lv a t * T (lv_L lv t ++ i :: rest)))).
    2:{ intros a Ha. rewrite (HD a Ha). reflexivity. }
    apply (cur_exact (list nat) (list nat) (lv_r lv) (fun l c => T (l ++ c)) (lv_X lv) (lv_Y lv)
             (fun l => length l = j) (fun c' => length c' = length (c :: cs))) with (U := lv_U lv); auto.
Qed.

(* the tensor returned by the final sweep: first core = the sampled first-mode fibres through rsets[0]
   (cross.py:453-455), then the cores of the sweep.  It equals the target on the whole grid. *)
Theorem tt_recovery (T : list nat -> K) (c0 : score) (cs : list score) (lvs : list level) :
  rl c0 = 1%nat -> rr c0 = next_r lvs ->
  (forall i b, (b < next_r lvs)%nat -> sl c0 i 0%nat b = T (i :: next_R lvs b)) ->
  recov T 1 cs lvs ->
  forall i idx, length idx = length cs -> eval (c0 :: cs) (i :: idx) = T (i :: idx).
Proof.
  intros H1 Hr Hs Hrec i idx Hidx. unfold eval. rewrite H1. cbn [sumn evalv]. rewrite Hr.
  rewrite (sumn_ext (next_r lvs) _ (fun a => T ([i] ++ next_R lvs a) * evalv cs idx ones a)).
  2:{ intros a Ha. rewrite (Hs i a Ha). reflexivity. }
  rewrite (recov_tail T cs 1 lvs Hrec [i] idx eq_refl Hidx). cbn [app]. ring.
Qed.

(* The cores cross builds (QR of the sampled unfolding, Q Q[local]^-1) have the form  W x fibres  used above:
   if  Vt = Qm Rf  (QR is exact),  Binv (Qm[loc]) = I  and  W Ahat = I  with Ahat(t, a) = Vt (loc a) t  (the picked
   columns of the sampled unfolding), then  Qm Binv = Vt W^T. *)
Lemma qr_core_form (r : nat) (Vt Qm Rf Binv W : nat -> nat -> K) (loc : nat -> nat) :
  (forall x a, (a < r)%nat -> Vt x a = sumn r (fun s => Qm x s * Rf s a)) ->
  (forall s s', (s < r)%nat -> (s' < r)%nat -> sumn r (fun k => Binv s k * Qm (loc k) s') = delta s s') ->
  (forall a a', (a < r)%nat -> (a' < r)%nat -> sumn r (fun t => W a t * Vt (loc a') t) = delta a a') ->
  forall x a, (a < r)%nat -> mmulK K r Qm Binv x a = sumn r (fun t => W a t * Vt x t).
Proof.
  intros Hqr HB HW x a Ha. unfold mmulK.
  assert (HBinv : forall s, (s < r)%nat -> Binv s a = sumn r (fun t => Rf s t * W a t)).
  { intros s Hs.
    transitivity (sumn r (fun k => Binv s k * delta k a)).
    { rewrite (sumn_delta_r Kth r a (fun k => Binv s k)) by exact Ha. reflexivity. }
    rewrite (sumn_ext r _ (fun k => sumn r (fun s' => (Binv s k * Qm (loc k) s') * sumn r (fun t => Rf s' t * W a t)))).
    2:{ intros k Hk. replace (@delta K k a) with (@delta K a k) by (unfold delta; rewrite Nat.eqb_sym; reflexivity).
        rewrite <- (HW a k Ha Hk).
        rewrite (sumn_ext r (fun t => W a t * Vt (loc k) t)
                   (fun t => sumn r (fun s' => Qm (loc k) s' * (Rf s' t * W a t)))).
        2:{ intros t Ht. rewrite (Hqr (loc k) t Ht). rewrite <- sumn_mul_l by exact Kth.
            apply sumn_ext. intros s' _. ring. }
        rewrite sumn_exch by exact Kth. rewrite <- sumn_mul_l by exact Kth. apply sumn_ext. intros s' _.
        rewrite sumn_mul_l by exact Kth. ring. }
    rewrite sumn_exch by exact Kth.
    rewrite (sumn_ext r _ (fun s' => delta s s' * sumn r (fun t => Rf s' t * W a t))).
    2:{ intros s' Hs'. rewrite sumn_mul_r by exact Kth. rewrite (HB s s' Hs Hs'). reflexivity. }
    apply (sumn_delta Kth r s (fun s' => sumn r (fun t => Rf s' t * W a t)) Hs). }
  rewrite (sumn_ext r _ (fun s => sumn r (fun t => W a t * (Qm x s * Rf s t)))).
  2:{ intros s Hs. rewrite (HBinv s Hs). rewrite <- sumn_mul_l by exact Kth. apply sumn_ext. intros t _. ring. }
  rewrite sumn_exch by exact Kth. apply sumn_ext. intros t Ht. rewrite (Hqr x t Ht).
  rewrite sumn_mul_l by exact Kth. reflexivity.
Qed.

End Recover.

(* non-vacuity: the rank-2 matrix T(i, j) = i + j over Z, rows {0,1}, columns {0,1}:
   intersection [[0,1],[1,2]] with inverse [[-2,1],[1,0]]; X = [i, 1], Y = [1; j] *)
From TN Require Import Alg.Inst.
Definition exT (idx : list nat) : Z := Z.of_nat (nth 0 idx 0 + nth 1 idx 0).
Definition exM (m : list (list Z)) (a b : nat) : Z := nth b (nth a m []) 0%Z.
Definition exLv : level ZO :=
  mkLevel ZO 2 (fun t => [t]) (fun a => [a]) (exM [[-2;1];[1;0]]%Z)
          (fun l s => match s with O => Z.of_nat (hd 0 l) | _ => 1%Z end)
          (fun s c => match s with O => 1%Z | _ => Z.of_nat (hd 0 c) end)
          (exM [[-1;1];[1;0]]%Z).
Definition exC1 : Score.score ZO :=
  @mkScore ZO 2 1 5 (fun i a _ => (exM [[-2;1];[1;0]]%Z a 0 * exT [0%nat; i] + exM [[-2;1];[1;0]]%Z a 1 * exT [1%nat; i])%Z).
Example recov_instance : recov ZO exT 1 [exC1] [exLv].
Proof.
  cbn [recov exLv lv_r lv_L lv_R lv_W lv_X lv_Y lv_U next_r next_R exC1 rl rr sl length].
  split; [reflexivity|]. split; [reflexivity|]. split.
  { intros i a b Ha Hb. cbn [sumn ZO radd rmul r0 app]. lia. }
  split; [reflexivity|]. split; [reflexivity|]. split.
  { intros l c Hl Hc. destruct l as [|x [|? ?]]; try discriminate. destruct c as [|y [|? ?]]; try discriminate.
    cbn [sumn ZO radd rmul r0 app hd]. unfold exT. cbn [nth]. lia. }
  split.
  { intros t a Ht Ha. destruct t as [|[|t]]; try lia; destruct a as [|[|a]]; try lia; reflexivity. }
  split; [|exact I].
  intros s s' Hs Hs'. destruct s as [|[|s]]; try lia; destruct s' as [|[|s']]; try lia; reflexivity.
Qed.
