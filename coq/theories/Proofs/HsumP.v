(* hadamard_sum: the model value is the sum over all entries of the entrywise product *)
From TN Require Export Proofs.ArithP Proofs.DotP Proofs.SobolP.
From TN Require Export Model.Hsum.
Section HsumP.
Variable K : Ops.
Hypothesis Kth : laws K.
Add Ring Kring : Kth.
Local Open Scope K_scope.
Notation net := (list (score K)).

Lemma mul_all_sound (l : list net) : forall (acc r : net) sh, good K acc -> sshape acc = sh ->
  Forall (fun x => good K x /\ sshape x = sh) l -> mul_all acc l = Some r ->
  good K r /\ sshape r = sh /\ forall idx, in_range sh idx = true -> eval r idx = eval acc idx * prod_evals l idx.
Proof.
  induction l as [|x l IH]; intros acc r sh Ga Sa Hl H; cbn in H.
  - injection H as <-. split; [exact Ga|split; [exact Sa|]]. intros; cbn; ring.
  - inversion Hl as [|y l0 [Gx Sx] Hl']; subst y l0.
    destruct (mul_net acc x) as [a|] eqn:Ea; [|discriminate].
    destruct (mul_net_sound K Kth acc x a Ga Gx Ea) as (G & B & E).
    rewrite Sa, Sx, bshape_same in B. injection B as B. symmetry in B.
    destruct (IH a r sh G B Hl' H) as (Gr & Sr & Er). split; [exact Gr|split; [exact Sr|]].
    intros idx Hin. rewrite Er by exact Hin. cbn [prod_evals].
    rewrite E by (rewrite (in_range_length _ _ Hin), <- B; apply (sshape_length K)).
    rewrite Sa, Sx, !clip_in_range by exact Hin. ring.
Qed.

Theorem hsum_sound (l : list net) (v : K) sh :
  Forall (fun x => good K x /\ sshape x = sh) l -> hsum_net l = Some v ->
  v = sumidx sh (fun idx => prod_evals l idx).
Proof.
  intros Hl H. destruct l as [|x l]; [discriminate|]. cbn in H.
  inversion Hl as [|y l0 [Gx Sx] Hl']; subst y l0.
  destruct (mul_all x l) as [p|] eqn:Ep; [|discriminate]. injection H as <-.
  destruct (mul_all_sound l x p sh Gx Sx Hl' Ep) as (Gp & Sp & Evp).
  assert (Hne: sshape p <> []) by (apply (sshape_ne K); exact (proj1 Gp)).
  destruct (const_net_sound K Kth 1 (sshape p) Hne) as (Go & So & Eo).
  destruct Gp as [Np Cp]. destruct Go as [No Co].
  rewrite (dot_net_sound K Kth p (ones_like p) Np).
  - rewrite Sp. apply (sumidx_ext_in K). intros idx Hin.
    unfold ones_like. rewrite Eo by (rewrite (in_range_length _ _ Hin); congruence).
    rewrite Evp by exact Hin. cbn [prod_evals]. ring.
  - destruct p; [congruence|exact Cp].
  - unfold ones_like. destruct (const_net 1 (sshape p)) eqn:E; [congruence|]. exact Co.
  - apply (same_shape_of_sshape K). unfold ones_like. symmetry. exact So.
Qed.
End HsumP.
