(* metrics.dot: the running interface matrix Lprod (r2 x r1) advanced over the k leading modes:
   Lprod' = sum_i  B_i^T . Lprod . A_i   (einsum "sr,rai->sai" then left_unfolding(V)^T @ left_unfolding(U)).
   Tucker factors are part of the semantic slices (the code projects one core onto the other's factor,
   or onto U2^T U1 when both have one: the same bilinear form).  No proofs in this file. *)
From TN Require Export Model.Format.

Section Dot.
Variable K : Ops.
Local Open Scope K_scope.
Notation net := (list (score K)).

(* x^T L y *)
Definition bf (n2 n1 : nat) (L : nat -> nat -> K) (x y : nat -> K) : K :=
  sumn n2 (fun p2 => sumn n1 (fun p1 => L p2 p1 * x p2 * y p1)).
Definition mv (n : nat) (M : nat -> nat -> K) (x : nat -> K) : nat -> K :=
  fun p => sumn n (fun q => M p q * x q).
(* B^T L A *)
Definition sand (n2 n1 : nat) (B A L : nat -> nat -> K) : nat -> nat -> K :=
  fun q2 q1 => sumn n2 (fun p2 => sumn n1 (fun p1 => L p2 p1 * B p2 q2 * A p1 q1)).

Definition lstep (L : nat -> nat -> K) (a b : score K) : nat -> nat -> K :=
  fun q2 q1 => sumn (dm a) (fun i => sand (rl b) (rl a) (sl b i) (sl a i) L q2 q1).

Fixpoint lrun (L : nat -> nat -> K) (xs ys : net) : nat -> nat -> K :=
  match xs, ys with
  | a :: xs', b :: ys' => lrun (lstep L a b) xs' ys'
  | _, _ => L
  end.

Definition onesM : nat -> nat -> K := fun _ _ => 1.

(* full inner product of two networks with the same number of modes: torch.sum(Lprod) *)
Definition dot_net (a b : net) : K :=
  bf (last_rr (match b with c :: _ => rl c | [] => 1%nat end) b)
     (last_rr (match a with c :: _ => rl c | [] => 1%nat end) a)
     (lrun onesM a b) ones ones.

(* partial contraction over the k leading modes: entry of the result for the trailing indices
   (ia of t1, ib of t2); the code assembles transpose(t1trail) ++ t2trail around Lprod *)
Definition dot_partial (k : nat) (a b : net) (ia ib : list nat) : K :=
  let a1 := firstn k a in let b1 := firstn k b in
  bf (last_rr (match b with c :: _ => rl c | [] => 1%nat end) b1)
     (last_rr (match a with c :: _ => rl c | [] => 1%nat end) a1)
     (lrun onesM a1 b1) (evalv (skipn k b) ib ones) (evalv (skipn k a) ia ones).

Fixpoint same_shape (a b : net) : bool :=
  match a, b with
  | [], [] => true
  | x :: a', y :: b' => Nat.eqb (dm x) (dm y) && same_shape a' b'
  | _, _ => false
  end.

End Dot.
Arguments bf {K}. Arguments mv {K}. Arguments sand {K}. Arguments lstep {K}. Arguments lrun {K}.
Arguments onesM {K}. Arguments dot_net {K}. Arguments dot_partial {K}. Arguments same_shape {K}.
